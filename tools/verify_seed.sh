#!/bin/bash
# Confirms a seeded defect produced by a sub-agent in its scratch worktree:
#   tools/verify_seed.sh <Cxx> <n>
# 1. patch applies on the clean worktree  2. build (with and without -tags verif) + existing suite pass with it
# 3. the demo fails with it  4. the demo passes without it.   Prints a one-line summary; exit 0 iff all hold.
export GOFLAGS=-mod=mod GOPROXY=off GOSUMDB=off GOTOOLCHAIN=local
id=$1; n=$2; wt=/tmp/wt/$id; sd=$wt/_seeded
cd $wt || exit 2
git checkout -q -- . ; rm -f test/zz_seeded_*_test.go
[ -f $sd/patch$n.diff ] || { echo "$id-$n: no patch"; exit 2; }
git apply --check $sd/patch$n.diff || { echo "$id-$n: patch does not apply"; exit 1; }
git apply $sd/patch$n.diff
ok=1
go build ./... >/dev/null 2>&1 && go build -tags verif ./... >/dev/null 2>&1 || { echo "$id-$n: BUILD FAILS"; ok=0; }
suite=$(go test -vet=off -count=1 -timeout 25m ./... 2>&1 | grep -E "^(FAIL|ok|---)" | grep -c "^FAIL\|^--- FAIL")
[ "$suite" = "0" ] || { echo "$id-$n: EXISTING SUITE FAILS with patch"; ok=0; }
cp $sd/demo${n}_test.go test/zz_seeded_${n}_test.go
tests=$(grep -oE "^func (Test[A-Za-z0-9_]+)" test/zz_seeded_${n}_test.go | awk '{print $2}' | paste -sd'|')
with=$(go test -vet=off -count=1 -timeout 10m -run "^($tests)\$" ./test/ 2>&1 | tail -3 | grep -c "^FAIL\|^--- FAIL\|panic:")
git checkout -q -- . 
without=$(go test -vet=off -count=1 -timeout 10m -run "^($tests)\$" ./test/ 2>&1 | tail -3 | grep -c "^ok")
rm -f test/zz_seeded_*_test.go
[ "$with" != "0" ] || { echo "$id-$n: demo does NOT fail with the patch"; ok=0; }
[ "$without" != "0" ] || { echo "$id-$n: demo does NOT pass without the patch"; ok=0; }
if [ $ok = 1 ]; then echo "$id-$n: CONFIRMED (suite green with patch; demo [$tests] fails with / passes without)"; exit 0; fi
exit 1
