#!/bin/bash
# Confirms a saved seeded defect against the CURRENT /repo HEAD in a scratch clone (removed afterwards):
#   tools/verify_seed.sh seeded/<id>
# 1. patch applies  2. builds with and without -tags verif, existing suite green with it
# 3. the demonstration fails with it  4. passes without it.  Exit 0 iff all hold; updates meta.json "confirmed".
export GOFLAGS=-mod=mod GOPROXY=off GOSUMDB=off GOTOOLCHAIN=local
sd=$(readlink -f "$1"); id=$(basename $sd)
scratch=$(mktemp -d /tmp/seedverify.XXXXXX); trap 'rm -rf "$scratch"' EXIT
git clone -q /repo $scratch/repo && cd $scratch/repo || exit 2
head=$(git rev-parse --short HEAD)
git apply --check $sd/patch.diff 2>/dev/null || { echo "$id: patch does not apply on $head"; exit 1; }
git apply $sd/patch.diff
ok=1; why=""
go build ./... >/dev/null 2>&1 && go build -tags verif ./... >/dev/null 2>&1 || { why="$why build-fails"; ok=0; }
suite=$(go test -vet=off -count=1 -timeout 25m ./... 2>&1 | grep -c "^FAIL\|^--- FAIL")
[ "$suite" = "0" ] || { why="$why existing-suite-fails-with-patch"; ok=0; }
cp $sd/demo_test.go test/zz_seeded_demo_test.go
tests=$(grep -oE "^func (Test[A-Za-z0-9_]+)" test/zz_seeded_demo_test.go | awk '{print $2}' | paste -sd'|')
with=$(go test -vet=off -count=1 -timeout 10m -run "^($tests)\$" ./test/ 2>&1 | tail -5 | grep -c "^FAIL\|^--- FAIL\|panic:")
git checkout -q -- .
without=$(go test -vet=off -count=1 -timeout 10m -run "^($tests)\$" ./test/ 2>&1 | tail -3 | grep -c "^ok")
[ "$with" != "0" ] || { why="$why demo-does-not-fail-with-patch"; ok=0; }
[ "$without" != "0" ] || { why="$why demo-does-not-pass-without-patch"; ok=0; }
python3 - "$sd/meta.json" "$ok" "$head" "$why" <<'PY'
import json,sys
f,ok,head,why=sys.argv[1:5]
m=json.load(open(f))
m['confirmed']={"by":"tools/verify_seed.sh","against_repo_head":head,"all_conditions_hold":ok=="1","problems":why.strip()}
json.dump(m,open(f,'w'),indent=1)
PY
if [ $ok = 1 ]; then echo "$id: CONFIRMED on $head (suite green with patch; demo [$tests] fails with / passes without)"; exit 0; fi
echo "$id: NOT CONFIRMED on $head:$why"; exit 1
