#!/usr/bin/env python3
"""Writes the task descriptions for a round of independent seeded-defect sub-agents: tools/make_prompts.py <round-name> <outdir> [wtroot]
Each sub-agent gets ONE property's text, a scratch worktree of /repo and the one-line descriptions of the earlier seeds for that
property (to avoid repeats) - nothing else from /verif."""
import json, sys, os, re, glob
ROOT = os.path.dirname(os.path.dirname(os.path.abspath(__file__)))
rnd, out = sys.argv[1], sys.argv[2]
wtroot = sys.argv[3] if len(sys.argv) > 3 else "/tmp/wt"
T = '''You are helping to evaluate a verification effort on a Go library (berty/go-ipfs-log: an append-only, signed Merkle-DAG log CRDT on IPFS). Your job: write a realistic BUG-INTRODUCING CHANGE ("seeded defect") to the library that breaks ONE stated property, while the library still compiles and its existing test suite still passes, and give a small demonstration that fails with your change and passes without it.

Work ONLY inside your own scratch git worktree of the library: {wt}   (it is a git worktree; `git -C {wt} diff` shows your change). Do not touch /repo or any other directory; do not look at /verif (it is off limits and irrelevant to your task). Do NOT use `git stash` (the stash is shared between worktrees); to switch between patched / unpatched use `git diff > /tmp/{pid}_p.diff; git checkout -- .; ...; git apply /tmp/{pid}_p.diff`, and remove your files from /tmp at the end.

Every shell command needs this environment (no network in this sandbox):
  export GOFLAGS=-mod=mod GOPROXY=off GOSUMDB=off GOTOOLCHAIN=local
Existing test suite (must still PASS with your change):
  cd {wt} && go test -vet=off -count=1 -timeout 25m ./...
(the interesting package is ./test/; it takes ~10-30 s, more when the machine is busy - it is busy). The code also has a build tag `verif` guarding a few no-op hook calls `verifPoint(...)` (verif_on.go / verif_off.go); leave those alone, and make sure `go build -tags verif ./...` still compiles too.

THE PROPERTY TO BREAK ({pid}: {title})
{statement}
Quantifier: {quant}

IMPORTANT - this is the {rnd} ROUND of this exercise. The following seeded defects for this property exist already; do not repeat them and do not submit close variants (same mechanism at another line, same trigger through another function):
{earlier}

What I want from you - TWO different NEW seeded defects if you can (one is acceptable; if you really cannot find a new one, say so rather than padding):
 * Each is a small, realistic change to non-test source files under {wt} (the kind of slip a maintainer could make in a refactor, a performance PR, a "hardening" or "clean-up"). No changes to *_test.go files, go.mod, or the verif_* files.
 * It must BREAK the property above for at least some inputs / schedules / histories, yet compile and keep the existing suite green.
 * It must need something SPECIFIC to manifest - NOT something any ordinary use exposes at once. A test asserting the property on one simple log must not catch it.
 * Provide a demonstration: a Go test file (package test, placed at {wt}/test/zz_seeded_<n>_test.go, using the helpers already in that package) that FAILS with your change applied and PASSES on the unchanged code. Verify both directions yourself. If the demonstration only fails under `go test -race`, say so explicitly in the notes.

{angle}

Deliverables, written under {wt}/_seeded/ :
   patch1.diff   (output of `git diff` for defect 1 ONLY - source change without the demo test file)
   demo1_test.go (copy of the demonstration test for defect 1)
   notes1.md     (first line: a one-line title of the defect; then which part of the property it breaks, what exactly is needed for it to manifest, the exact commands you ran and their pass/fail outcome with and without the patch)
   and patch2.diff / demo2_test.go / notes2.md for a second, different defect (different mechanism / different clause of the property).
Leave the worktree's tracked files UNCHANGED at the end (git checkout -- . ; remove your zz_seeded test files from test/), so only {wt}/_seeded/ remains. Each patch must apply cleanly on the unchanged worktree with `git apply`.

Report back briefly: for each defect one paragraph (what was changed, why the suite does not notice, what makes it manifest) and whether you verified fail-with / pass-without.'''
R2 = {
'C01':["Join merges against a stale (pre-lock) snapshot of its own heads","NewFromMultihash passes fetchOptions.SortFn instead of logOptions.SortFn to NewLog"],
'C02':["Join reads the source's entries before its heads","Append does l.Entries.Set before the CanAppend check","ToSnapshot reads the heads outside the lock"],
'C03':["Join reads the source's entries before its heads","l.Entries.Set moved into the per-entry verification goroutine of Join"],
'C04':["Append takes the clock from heads.At(0) instead of the max over heads","ref-vs-next filter flag reflects only the last element of next","NewLog honours the id of LogOptions.Clock"],
'C05':["SetIdentity uses Clock.Merge on the head entries' own clock objects","Join stale own heads"],
'C06':["rejected merge still moves l.Clock","NewFromMultihash drops the AccessController","Verify additionally requires IsValid (rejects empty payloads)"],
'C07':["Verify rebuilds the signed bytes from e.Copy() (de-duplicated links)","deferred setErr(inErr) lets a later success overwrite an error","verification split among workers leaves the remainder unverified"],
'C08':["uniqueCIDs ranges over a map when duplicates exist","fromMultihash no longer passes IO to FetchAll","EntryV0.ToPlain calls SetClock before filling the clock"],
'C09':["Append does Entries.Set before CanAppend","Join entries-before-heads","fromMultihash treats Length -1 as a limit"],
'C10':["updateClock only called for admitted entries","processDone() called after taking muProcess (deadlock at low concurrency)","fromEntryHash sorts a copy but trims the unsorted slice"],
'C11':["processDone() moved inside the locked section","unbounded loads no longer queue refs","timeout applied per block instead of per load"],
'C12':["pb DecodeRawEntry type-asserts *ProtoNode and dereferences nil","Entry.SetClock ignores clocks that are not Defined()","castBytesToCid checks x == nil instead of len(x) == 0"],
'C13':["Iterator uses defer RUnlock (lock held while sending)","SetIdentity takes RLock","GetEntries returns the live map"],
'C14':["Join stale own heads","fast path hasHeadsOf() holding own RLock while RLocking the other log","difference() returns the whole source index when the destination is empty"],
'C15':["RUnlock missing on the unknown-LT error path","unknown LTE bound ignored when another bound is known","defer RUnlock (lock held while sending)","amount > 0 instead of amount > -1 in the GT/GTE trim"],
'C16':["difference() stops after `size` new entries","trim sorts l.Entries with SortFn instead of using values()","clock update after the trim dereferences heads.At(0) (nil at bound 0)"],
'C17':["Append removes the block of a refused entry (Dag().Remove)","cached manifest CID not invalidated by Join"],
'C18':["fromMultihash drops IO (keyless fetch)","NewFromJSON drops IO for the NewLog call","PreSign early return when len(next)==0","CreateEntryWithIO swallows the PreSign error"],
'C19':["clock Compare through float64","hash tiebreak compares only the multihash digest","hash tiebreak returns First(a,b) on equal hashes"],
'C20':["GetKey wipes the datastore's own buffer","CreateKey fills the cache before the datastore Put","cache keyed by the lower-cased id"],
}
ANGLE = open(os.path.join(out, "ANGLE.txt")).read().strip() if os.path.exists(os.path.join(out, "ANGLE.txt")) else ""
for l in open(os.path.join(ROOT, "properties.jsonl")):
    p = json.loads(l); pid = p["id"]
    items = []
    for d in sorted(glob.glob(os.path.join(ROOT, "seeded", pid + "-*"))):
        first = ""
        nf = os.path.join(d, "notes.md")
        if os.path.exists(nf):
            ls = [x for x in open(nf).read().splitlines() if x.strip()]
            if ls:
                first = re.sub(r'^#+\s*', '', ls[0])
                first = re.sub(r'^(C\d+\s*/?\s*)?((R|round )\d+\s*/?\s*)?([Ss]eed(ed)?( defect)?|defect) ?\d*\s*(\([^)]*\))?\s*[-:–—]*\s*', '', first).strip()
        if len(first) < 15:
            first = " ".join(json.load(open(os.path.join(d, "meta.json"))).get("needs_to_manifest", "").split())[:200]
        if len(first) < 15:
            continue
        items.append("  - " + first[:260])
    items += ["  - " + x for x in R2.get(pid, [])]
    open(os.path.join(out, pid + ".txt"), "w").write(T.format(wt=os.path.join(wtroot, pid), pid=pid, title=p["title"], statement=p["statement"], quant=p["quantifier"]["text"], rnd=rnd, earlier="\n".join(items), angle=ANGLE))
print("written", out)
