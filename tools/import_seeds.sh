#!/bin/bash
# Imports what a sub-agent left in its scratch worktree into /verif/seeded:
#   tools/import_seeds.sh <Cxx> <round-tag, e.g. r4> [worktree-root=/tmp/wt]
# /tmp/wt/<Cxx>/_seeded/{patchN.diff,demoN_test.go,notesN.md} -> seeded/<Cxx>-<tag>-N/{patch.diff,demo_test.go,notes.md,meta.json}
# Nothing is confirmed here; run tools/verify_seed.sh seeded/<id> afterwards.
p=$1; tag=$2; root=${3:-/tmp/wt}
cd "$(dirname "$0")/.." || exit 2
src=$root/$p/_seeded
[ -d "$src" ] || { echo "no $src"; exit 1; }
for patch in $src/patch*.diff; do
  n=$(basename $patch .diff); n=${n#patch}
  id=$p-$tag-$n; d=seeded/$id
  [ -f $src/demo${n}_test.go ] || { echo "$id: no demo, skipped"; continue; }
  mkdir -p $d
  cp $patch $d/patch.diff; cp $src/demo${n}_test.go $d/demo_test.go
  [ -f $src/notes$n.md ] && cp $src/notes$n.md $d/notes.md
  python3 - "$d" "$id" "$p" "$tag" <<'PY'
import json,sys,re,os
d,id,p,tag=sys.argv[1:5]
files=sorted(set(re.findall(r'^\+\+\+ b/(\S+)',open(d+'/patch.diff').read(),re.M)))
notes=open(d+'/notes.md').read() if os.path.exists(d+'/notes.md') else ''
first=' '.join(notes.split())[:260]
rounds={'r2':'second','r3':'third','r4':'fourth','r5':'fifth'}
m={"seed":id,"property":p,
 "source":"independent sub-agent, %s round (told which earlier mechanisms to avoid), given only the property text and a scratch worktree of /repo"%rounds.get(tag,tag),
 "files_changed":files,"needs_to_manifest":first,"checks_expected_to_catch":[p],"results":{}}
json.dump(m,open(d+'/meta.json','w'),indent=1)
PY
  echo "imported $id"
done
