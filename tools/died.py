#!/usr/bin/env python3
"""Called by ./check when the monitor process itself died (a panic or runtime fatal error on a goroutine nobody
can recover - in-process monitors call the library directly). Decides from the crash report who raised it:
the library under test (=> a violation: "<id>/process-died", the report is the witness) or the harness
(=> broken check). Writes evidence/<id>.json and a replay file, prints the verdict line, exits 1 or 2."""
import json, os, re, sys, time
prop, tier, seed, errfile, root = sys.argv[1], sys.argv[2], int(sys.argv[3]), sys.argv[4], sys.argv[5]
txt = open(errfile, errors='replace').read()
m = re.search(r'^(panic:|fatal error:).*$', txt, re.M)
if not m:
    print(f"{prop} {tier} seed={seed}: BROKEN CHECK: the monitor process ended abnormally without a crash report")
    sys.exit(2)
head = m.group(0)
rest = txt[m.start():]
blk = re.search(r'^goroutine \d+ \[[^\]]*\]:\n((?:.+\n)+)', rest, re.M)
frames = [l for l in (blk.group(1).splitlines() if blk else []) if not l.startswith('\t')]
origin = 'unknown'
for f in frames:
    if f.startswith(('panic(', 'runtime.', 'runtime/', 'sync.', 'sync/', 'internal/', 'testing.', 'reflect.')) or 'debug.Stack' in f:
        continue
    origin = 'library' if 'berty.tech/go-ipfs-log' in f else ('harness' if 'verifharness' in f else 'other')
    if origin == 'other':
        # a dependency frame: keep looking for who called it
        continue
    break
level = 'exploration'
try:
    for c in json.load(open(os.path.join(os.path.dirname(os.path.abspath(__file__)), '..', 'MANIFEST.json')))['checks']:
        if c.get('property_id') == prop:
            level = c.get('level', level)
except Exception:
    pass
excerpt = rest[:6000]
os.makedirs(os.path.join(root, 'evidence'), exist_ok=True)
os.makedirs(os.path.join(root, 'replays'), exist_ok=True)
viol = origin == 'library'
# (level "other": this file does not describe an exploration - the process died before it could count anything)
ev = {"property_id": prop, "tier": tier, "seed": seed, "level": "other", "wall_s": 0,
      "coverage": {"explanation": "the monitor process (check level: " + level + ") died before it could report what it had covered; the only thing observed is the crash itself (see violation_signatures and the replay file)",
                   "samples": [{"crash_report": excerpt[:1500]}]},
      "violations": 1 if viol else 0,
      "violation_signatures": [f"{prop}/process-died: {head} (raised by {origin} code)"] if viol else [],
      "assumptions": []}
json.dump(ev, open(os.path.join(root, 'evidence', prop + '.json'), 'w'), indent=1)
if viol:
    rp = os.path.join(root, 'replays', f"{prop}-{tier}-{seed}-died.json")
    json.dump({"property": prop, "tier": tier, "seed": seed, "signature": f"{prop}/process-died", "detail": {"origin": origin, "first_frames": frames[:6]},
               "message": f"the monitor process was killed by {head} raised inside the library on a goroutine of its own (nobody can recover it)", "witness": {"crash_report": excerpt}}, open(rp, 'w'), indent=1)
    print(f"VIOLATION property={prop} replay={rp}")
    print(f"  [{prop}/process-died] {head} - raised in {frames[0] if frames else '?'}")
    print(f"{prop} {tier} seed={seed}: VIOLATED; the monitor process died: {head}")
    sys.exit(1)
print(f"{prop} {tier} seed={seed}: BROKEN CHECK: the monitor process died ({head}) and the crash was raised by {origin} code: {frames[:3]}")
sys.exit(2)
