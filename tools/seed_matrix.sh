#!/bin/bash
# Runs every saved seeded defect against the checks expected to catch it (quick tier) and records the outcome
# in seeded/<id>/meta.json and seeded/RESULTS.md.   usage: tools/seed_matrix.sh [seed-id ...]
cd "$(dirname "$0")/.."
seeds=${@:-$(ls seeded | grep -E '^C[0-9]+-(r[0-9]+-)?[0-9]+$')}
one() {
  s=$1
  d=seeded/$s
  checks=$(python3 -c "import json;print(' '.join(json.load(open('$d/meta.json'))['checks_expected_to_catch']))")
  out=$(timeout 1800 tools/try_patch.sh $d/patch.diff $checks 2>&1 | grep -E "CAUGHT|MISSED|BROKEN")
  echo "$s: $(echo "$out" | tr '\n' '|')"
  python3 - "$d" "$out" <<'PY'
import json,sys,re,subprocess
d,out=sys.argv[1],sys.argv[2]
m=json.load(open(d+'/meta.json'))
m['results']={}
for l in out.splitlines():
    p=l.split()[0]; verdict=l.split()[1]
    sigs=re.findall(r'\[([^\]]+)\]',l)
    m["results"][p]={"verdict":verdict,"tier":"quick","seed":int(__import__("os").environ.get("VERIF_SEED","1")),"signatures":sigs}
m['ran']="tools/try_patch.sh (git -C /repo apply; ./check <id> quick; git -C /repo checkout -- .)"
json.dump(m,open(d+'/meta.json','w'),indent=1)
PY
}
export -f one
echo $seeds | tr ' ' '\n' | xargs -P ${PAR:-4} -I{} bash -c 'one {}' 
python3 - <<'PY'
import json,glob,os
rows=[]
for f in sorted(glob.glob('seeded/*/meta.json')):
    m=json.load(open(f))
    res="; ".join(f"{k}: {v['verdict']} ({', '.join(v['signatures'][:3])})" for k,v in m.get('results',{}).items())
    rows.append(f"| {m['seed']} | {', '.join(m['files_changed'])} | {res} |")
open('seeded/RESULTS.md','w').write("# Seeded defects vs checks (quick tier, VERIF_SEED=1)\n\n| seed | files changed | outcome |\n|---|---|---|\n"+"\n".join(rows)+"\n")
PY
