#!/bin/bash
# runs every check of a tier, validates evidence; usage: tools/run_all.sh [quick|thorough] [seed]
cd "$(dirname "$0")/.."
tier=${1:-quick}; seed=${2:-1}
fail=0
for i in $(seq -w 1 20); do
  p=C$i
  s=$(date +%s)
  out=$(VERIF_SEED=$seed ./check $p $tier 2>&1); rc=$?
  e=$(( $(date +%s) - s ))
  line=$(echo "$out" | grep -E "HELD|VIOLATED|BROKEN" | head -1)
  kf=$(echo "$out" | grep -c "^KNOWN-FINDING")
  echo "$p rc=$rc ${e}s known=$kf :: $line"
  [ $rc -ne 0 ] && { fail=1; echo "$out" | grep -E "VIOLATION|^  \[" | head -6; }
  python3-vt - <<PY || fail=1
import json,jsonschema,sys
try:
    jsonschema.validate(json.load(open('evidence/$p.json')),json.load(open('/root/.vp/EVIDENCE.schema.json')))
except Exception as e:
    print('  EVIDENCE INVALID $p', str(e)[:200]); sys.exit(1)
PY
done
exit $fail
