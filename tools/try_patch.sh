#!/bin/bash
# Applies a seeded-defect patch to /repo, runs the given checks (quick tier), and ALWAYS reverts /repo.
#   tools/try_patch.sh <patch.diff> <Cxx> [<Cyy> ...]     (env TIER=quick|thorough, VERIF_SEED)
# Prints one line per check: CAUGHT (exit 1 + VIOLATION line) / MISSED (exit 0) / BROKEN (other).
cd "$(dirname "$0")/.."
patch=$(readlink -f "$1"); shift
tier=${TIER:-quick}
if [ -n "$(git -C /repo status --porcelain)" ]; then echo "/repo is dirty, refusing"; exit 2; fi
git -C /repo apply "$patch" || { echo "patch does not apply"; exit 2; }
trap 'git -C /repo checkout -- . ; git -C /repo clean -fdq' EXIT
for p in "$@"; do
  out=$(./check $p $tier 2>&1); rc=$?
  n=$(echo "$out" | grep -c "^VIOLATION property=$p")
  sigs=$(echo "$out" | grep -oE "^  \[[^]]+\]" | sort | uniq -c | sort -rn | head -4 | tr '\n' ';')
  if [ $rc -eq 1 ] && [ $n -gt 0 ]; then echo "$p CAUGHT ($n witnesses) $sigs"
  elif [ $rc -eq 0 ]; then echo "$p MISSED"
  else echo "$p BROKEN rc=$rc: $(echo "$out" | tail -3 | tr '\n' ' ' | cut -c1-300)"; fi
done
