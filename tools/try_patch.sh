#!/bin/bash
# Applies a seeded-defect patch to a SCRATCH CLONE of /repo (under /tmp, removed afterwards), runs the given
# checks against that clone (VERIF_REPO), and leaves /repo untouched - so several experiments can run in parallel.
#   tools/try_patch.sh <patch.diff> <Cxx> [<Cyy> ...]     (env TIER=quick|thorough, VERIF_SEED)
# With INPLACE=1 the patch is applied to /repo itself and reverted afterwards (the way the brief describes).
# Prints one line per check: CAUGHT (exit 1 + VIOLATION line) / MISSED (exit 0) / BROKEN (other).
cd "$(dirname "$0")/.."
patch=$(readlink -f "$1"); shift
tier=${TIER:-quick}
if [ "${INPLACE:-0}" = 1 ]; then
  if [ -n "$(git -C /repo status --porcelain)" ]; then echo "/repo is dirty, refusing"; exit 2; fi
  git -C /repo apply "$patch" || { echo "patch does not apply"; exit 2; }
  trap 'git -C /repo checkout -- . ; git -C /repo clean -fdq' EXIT
  unset VERIF_REPO
else
  scratch=$(mktemp -d /tmp/seedrepo.XXXXXX)
  trap 'rm -rf "$scratch"' EXIT
  git clone -q /repo "$scratch/repo" && git -C "$scratch/repo" apply "$patch" || { echo "patch does not apply"; exit 2; }
  export VERIF_REPO="$scratch/repo"
  export VERIF_ROOT_OUT="$scratch/out"
fi
for p in "$@"; do
  out=$(./check $p $tier 2>&1); rc=$?
  n=$(echo "$out" | grep -c "^VIOLATION property=$p")
  sigs=$(echo "$out" | grep -oE "^  \[[^]]+\]" | sort | uniq -c | sort -rn | head -4 | tr '\n' ';')
  if [ $rc -eq 1 ] && [ $n -gt 0 ]; then echo "$p CAUGHT ($n witnesses) $sigs"
  elif [ $rc -eq 0 ]; then echo "$p MISSED"
  else echo "$p BROKEN rc=$rc: $(echo "$out" | grep -m1 -E 'BROKEN CHECK|BUILD FAILED|panic' | cut -c1-400) $(echo "$out" | tail -2 | tr '\n' ' ' | cut -c1-200)"; fi
done
