#!/usr/bin/env python3
"""Regenerates /verif/MANIFEST.json from the table below (kept here so the manifest is always consistent)."""
import json, os, subprocess
ROOT = os.path.dirname(os.path.dirname(os.path.abspath(__file__)))

def repo_commits(prefix):
    out = subprocess.run(["git", "-C", "/repo", "log", "--format=%h %s"], capture_output=True, text=True).stdout
    return [l.split()[0] for l in out.splitlines() if l.split(" ", 1)[1].startswith(prefix)]

CHECKS = {
 "C01": dict(cat="exploration", ref="§3 C01", tech="runtime monitor: state-function table + reference-model equality over replay-twin executions of seeded histories",
   text="Held on the executions observed: every observation of every replica in every replay twin of the seeded histories is entered into a per-history table keyed by the entry set; a later observation with the same entry set but different heads / value sequence / manifest fires at the first divergent intermediate state. Exploration is the right level: the quantifier ranges over unbounded histories and merge orders, which a monitor can only sample densely.",
   note="Trusts the harness block store, deterministic key derivation (hash-reproducible twins) and the 60-line reference model; histories bounded (<=6 replicas, <=80 steps)."),
 "C02": dict(cat="exploration", ref="§3 C02", tech="runtime monitor: heads recomputed by a reference model after every step of seeded histories",
   text="After every step of every seeded history Heads(), RawHeads(), ToSnapshot().Heads and ToJSONLog().Heads are compared with the set of unreferenced entries recomputed from GetEntries(). Sampling of reachable states; no proof.",
   note="Trusts the reference model's 10-line heads function and the harness store."),
 "C03": dict(cat="exploration", ref="§3 C03", tech="runtime monitor: sequence oracle (dup-free, complete, causal, strictly sorted, equals model linearisation) on every state",
   text="Every state of seeded histories and of shape-directed DAGs (wide forks, diamond ladders, combs, equal-time heads) under three total orderings is checked on Values(), ToSnapshot().Values and ToString().",
   note="States where the configured ordering is not a strict total order are outside the property and skipped (counted)."),
 "C04": dict(cat="exploration", ref="§3 C04", tech="runtime monitor: before/result/after assertions on every Append against the reference model",
   text="Every Append in seeded histories (incl. after SetIdentity and after reload through each loader) is checked for next = heads, clock id, clock dominance over all held entries, single head, reference soundness and the logarithmic bound.",
   note="Reference bound is floor(log2 pc)+2, the loosest reading of 'at most logarithmic' that cannot false-alarm."),
 "C05": dict(cat="exploration", ref="§3 C05", tech="runtime monitor: per-replica monotonicity + global content-digest shadow swept after every step, all codecs",
   text="After every step all replicas are swept: nothing vanishes or changes (digest over every field, also through Get), Len is monotone, previous values are a subsequence; a global shadow detects in-place mutation of entries shared between log instances.",
   note="Digest covers payload, id, next, refs, v, key, sig, identity, hash, clock."),
 "C06": dict(cat="exploration", ref="§3 C06", tech="runtime monitor: corruption/policy injection with independent validity model, atomicity by snapshot equality, child processes with journal",
   text="Seeded corrupted source logs (10 corruption kinds at head/interior/root positions, up to 300 candidates) are merged under 5 access policies; the oracle knows which candidates are invalid or denied and demands error + unchanged log, or success with only valid candidates admitted; denied appends; Verify and merge-into-fresh for every appended entry under the default, link-encrypting and legacy codecs.",
   note="Runs in child processes so that a panic on a verification goroutine is attributed to its input."),
}
PENDING = {}
ALL = ["C%02d" % i for i in range(1, 21)]

def main():
    checks = []
    for pid in ALL:
        if pid not in CHECKS:
            continue
        c = CHECKS[pid]
        checks.append({
            "property_id": pid,
            "quick_cmd": f"./check {pid} quick",
            "thorough_cmd": f"./check {pid} thorough",
            "evidence_file": f"/verif/evidence/{pid}.json",
            "replay_cmd_template": "./check --replay {path}",
            "engine": "vcheck",
            "level_claimed": {"category": c["cat"], "text": c["text"], "design_ref": c["ref"]},
            "level_note": c["note"],
            "technique": c["tech"],
        })
    na = [{"property_id": p, "reason": PENDING.get(p, "monitor not built yet in this round (planned in DESIGN.md §3); not claimed until its check exists")} for p in ALL if p not in CHECKS]
    m = {
        "version": 1,
        "setup_cmd": "./check --setup",
        "hooks": {
            "guard": "verif (Go build tag)",
            "enable": "go build -tags verif (the harness module replaces berty.tech/go-ipfs-log with /repo, so every check is compiled from /repo's working tree)",
            "baseline_off_cmd": "cd /repo && GOFLAGS=-mod=mod GOPROXY=off GOSUMDB=off GOTOOLCHAIN=local go test -json -vet=off -count=1 -timeout 25m ./...",
            "source_commits": repo_commits("verif:"),
            "add_only": True,
        },
        "engines": [{"name": "vcheck", "path": "/verif/harness", "serves_properties": [c["property_id"] for c in checks],
                     "kind_free_text": "Go harness: instrumented in-memory block store, seeded history generator, reference model, per-property runtime monitors, child-process runner with journal, race-detector runs, porcupine history checking"}],
        "checks": checks,
        "not_applicable": na,
        "notes": "Technique family: runtime monitoring and sanitizers. Every check observes executions of the real code in /repo. Genuine defects found by the monitors and repaired are listed under 'fixed' in /verif/known_findings.json; recorded (unrepaired) findings under 'findings'.",
    }
    json.dump(m, open(os.path.join(ROOT, "MANIFEST.json"), "w"), indent=1)
    print("MANIFEST.json written:", len(checks), "checks,", len(na), "not applicable")

if __name__ == "__main__":
    main()
