#!/usr/bin/env python3
"""Regenerates /verif/MANIFEST.json from the table below (kept here so the manifest is always consistent)."""
import json, os, subprocess
ROOT = os.path.dirname(os.path.dirname(os.path.abspath(__file__)))

def repo_commits(prefix):
    out = subprocess.run(["git", "-C", "/repo", "log", "--format=%h %s"], capture_output=True, text=True).stdout
    return [l.split()[0] for l in out.splitlines() if l.split(" ", 1)[1].startswith(prefix)]

CHECKS = {
 "C01": dict(cat="exploration", ref="§3 C01", tech="runtime monitor: state-function table + reference-model equality over replay-twin executions of seeded histories",
   text="Held on the executions observed: every observation of every replica in every replay twin of the seeded histories is entered into a per-history table keyed by the entry set; a later observation with the same entry set but different heads / value sequence / manifest fires at the first divergent intermediate state. Exploration is the right level: the quantifier ranges over unbounded histories and merge orders, which a monitor can only sample densely.",
   note="Trusts the harness block store, deterministic key derivation (hash-reproducible twins) and the 60-line reference model; histories bounded (<=6 replicas, <=80 steps)."),
 "C02": dict(cat="exploration", ref="§3 C02", tech="runtime monitor: heads recomputed by a reference model after every step of seeded histories",
   text="After every step of every seeded history Heads(), RawHeads(), ToSnapshot().Heads and ToJSONLog().Heads are compared with the set of unreferenced entries recomputed from GetEntries(). Histories include refused operations, forks, merges from length-limited loads (logs with gaps) and offered histories holding an entry of another log id. Sampling of reachable states; no proof.",
   note="Trusts the reference model's 10-line heads function and the harness store."),
 "C03": dict(cat="exploration", ref="§3 C03", tech="runtime monitor: sequence oracle (dup-free, complete, causal, strictly sorted, equals model linearisation) on every state",
   text="Every state of seeded histories and of shape-directed DAGs (wide forks, diamond ladders, combs, equal-time heads) under three total orderings is checked on Values(), ToSnapshot().Values and ToString().",
   note="States where the configured ordering is not a strict total order are outside the property and skipped (counted)."),
 "C04": dict(cat="exploration", ref="§3 C04", tech="runtime monitor: before/result/after assertions on every Append against the reference model",
   text="Every Append in seeded histories (incl. after SetIdentity and after reload through each loader) is checked for next = heads, clock id, clock dominance over all held entries, single head, reference soundness and the logarithmic bound; also appends after a size-bounded merge that cut into the log and after the writer changed to the same user on another device (same identity id, other key).",
   note="Reference bound is floor(log2 pc)+2, the loosest reading of 'at most logarithmic' that cannot false-alarm."),
 "C05": dict(cat="exploration", ref="§3 C05", tech="runtime monitor: per-replica monotonicity + global content-digest shadow swept after every step, all codecs",
   text="After every step all replicas are swept: nothing vanishes or changes (digest over every field, also through Get), Len is monotone, previous values are a subsequence; a global shadow detects in-place mutation of entries shared between log instances; every accessor (Heads, RawHeads, Values, snapshot) must hand out the object the log holds under that hash (histories include merges that offer a tampered same-hash look-alike of a held entry, and link keys whose buffer the application wipes later).",
   note="Digest covers payload, id, next, refs, v, key, sig, identity, hash, clock."),
 "C06": dict(cat="exploration", ref="§3 C06", tech="runtime monitor: corruption/policy injection with independent validity model, atomicity by snapshot equality, child processes with journal",
   text="Seeded corrupted source logs (10 corruption kinds at head/interior/root positions, up to 300 candidates) are merged under 5 access policies; the oracle knows which candidates are invalid or denied and demands error + unchanged log, or success with only valid candidates admitted; identity-less entries; tampered look-alikes of entries the destination already holds offered as heads; denied appends; Verify and merge-into-fresh for every appended entry - the objects Append returned and the ones read back from storage through each loader - under the default, link-encrypting and legacy codecs; logs whose clocks start at 2^60; partial replicas offered a tampered or denied entry exactly under the hash their own entries point to; the merge that FOLLOWS a rejected one compared with a twin that never saw it; partial logs must be mergeable.",
   note="Runs in child processes so that a panic on a verification goroutine is attributed to its input."),

 "C07": dict(cat="exploration", ref="§3 C07", tech="runtime monitor: single-field mutation matrix on deep copies of real entries, Verify as observed oracle",
   text="Every appended entry of seeded histories (7 payload classes incl. invalid UTF-8, 0-16 predecessors, 0-7 references, 3 codecs) is copied and ~90 single-field variants are verified: each must fail while the untouched copy passes; at merge level a tampered variant hidden in a chain of 17-60 entries, or offered again after a size-bounded merge validated and trimmed the genuine entry, must not be admitted; the payload replaced by a text rendering of itself (base64, hex, quoted) is a variant like any other. One recorded finding (payloads differing only inside invalid UTF-8 sequences sign identically) is matched narrowly by field + equality after UTF-8 coercion.",
   note="Duplicating a link changes neither membership nor order and is only counted. Identity fields are not in the property's list of signed parts."),
 "C08": dict(cat="exploration", ref="§3 C08", tech="runtime monitor: write/read-back field equality, re-encode CID equality, cross-process CID-list comparison, pinned vectors",
   text="Seeded corpus written and read back through the real codecs with field-by-field and CID comparisons, manifests, held entry objects re-encoded after logs configured with other codecs tried to merge them, link keys built from a buffer the caller wipes after the first writes, the repository's own pinned interoperability vectors and v0/v1 fixtures re-created with the suite's key material, and the same corpus encoded in 3 child processes (GOMAXPROCS 1/4/16); items preceded by a refused creation on the same codec instance; under the link codec a decoded entry stored again must give the block it came from.",
   note="Pinned values are the literals of test/entry_test.go, test/utils_fixtures_test.go, test/log_load_test.go; nothing new is pinned."),
 "C09": dict(cat="exploration", ref="§3 C09", tech="runtime monitor: reload through 4 loaders against a gated block store that releases requests in adversarial orders; model equality",
   text="At seeded (thorough: all) states of seeded histories each replica is rebuilt without limit through all four loaders under concurrency {1,2,3,8,32} x 6 release policies + ungated; id, entries, heads, values must equal the source. thorough runs race-instrumented.",
   note="Arrival order is varied by parking Get calls; timing decides only which order is realised."),
 "C10": dict(cat="exploration", ref="§3 C10", tech="runtime monitor: count / membership / top-m-up-to-ties / schedule-independence oracle over limited loads on the gated store",
   text="Four loaders x every limit 0..size+2 (quick: seeded third) x concurrency x release policy on forked logs with skip references; count = min(max(n,k),size), supplied entries kept, nothing strictly more recent omitted, equal result sets for two runs differing only in schedule (when clocks are distinct), the caller's limit variable untouched; a quarter of the logs under the link-encrypting codec.",
   note="Membership uses the strict part of (time, clock id) so ties cannot false-alarm."),
 "C11": dict(cat="fault_enumeration", ref="§3 C11", tech="fault injection at the block-store boundary + offline checker over the recorded Get event log + state-based hang detector, child processes",
   text="Every fault kind (absent, removed, I/O error, undecodable, non-entry block, hang until timeout) at every structural position class (all heads, one head, cut vertex, everything, independent subsets) x exclusion sets x concurrency x completion orders; the event log is checked for double / excluded requests and for the deadline of every request's context (a configured timeout bounds every request, also under a caller deadline), the result against the model's reachability closure, termination by quiescence; through FetchAll and through the manifest loader, default and link-encrypting codec (incl. sealed links with a wrong-length nonce), the entry-hash loader, every spelling of 'no limit' (-1, -2, -100), a legacy-codec chain with a block that never arrives under a fetch timeout; a fifth of the quick cases again under the race detector.",
   note="Fault kinds x position classes are enumerated; subsets and histories are sampled. Termination is bounded progress (quiescent store, timeouts fired), not liveness."),
 "C12": dict(cat="fault_enumeration", ref="§3 C12", tech="hostile-input generation (exhaustive single-edit matrix on generic CBOR/JSON values, truncations at every offset, bit flips, random bytes) decoded under recover + placement runs in journalled child processes",
   text="Single edits are enumerated exhaustively (field paths x 21 replacement kinds on v2, link-encrypted v2, v1, manifest and v0 templates); multi-edits, bit flips and placements are sampled; every accessor / comparator / Verify / Join is called on whatever decodes; stored logs with hostile blocks at head / interior / root / reference-only positions must load the rest through all loaders with the process alive, the loaded log must keep working (size-bounded merges with every bound class, iteration, append), head lists with 40-240 hostile blocks interleaved load completely at high concurrency; a third of the stored histories written with a link key; head blocks that decode but carry an absurd clock time; a fifth of the quick placement cases again under the race detector.",
   note="In-process decode calls run under recover; loader-driven cases run in children so a panic on a fetcher goroutine is attributed through the journal."),
 "C13": dict(cat="exploration", ref="§3 C13", tech="Go race detector + forced-preemption sweep at verif hook points + porcupine linearizability of the mutator history + offline history checker + read-result monitors + deadlock classifier",
   text="Race-instrumented children run short concurrent histories on one log (free-running, seeded noise, and a sweep parking one worker at every hook point - and while it holds a RawHeads() result - while every other operation kind runs, also with a merge source that is ahead of the log); operation kinds include bounded iterations and merges FROM the shared log; a bounded-merge workload (race / deadlock) and one whose bounds cannot trim (no append may be lost); oracles: race reports with both stacks in the library, state-based deadlock verdicts, exactly-once / real-time-implies-causal / one-chain checks, porcupine against a sequential log model, structural monitors on every read; after each history one more publication must name the log's current heads; a quarter of the appends are pinned (the pin service takes 2 ms).",
   note="Interleavings are sampled; the sweep is exhaustive only at hook granularity with one preemption. Reads are not required to be linearizable."),
 "C14": dict(cat="exploration", ref="§3 C14", tech="offline window checker over exactly recorded single-mutator state chains + directed parking between the source reads + deadlock classifier + race detector",
   text="Live-append, live-merge, cross-merge, ring, four-party, stalled-reader, ladder (logical step bound), after-refusals, hub, constant-size-source, busy-source (one append to the source completes after every read the merge makes of it; termination decided on logical steps) and shrinking-source (a size-bounded merge into the source between the two reads - the recorded finding) scenarios; every merge result must be before U S_i for a source state S_i recorded inside the call/return window, with heads an exact function of the result, causal closure w.r.t. all entries ever created, and termination.",
   note="Each log has one mutator goroutine so its state chain is known exactly; window bounds come from one atomic logical clock. One recorded finding: a size-bounded merge INTO the source that completes between the two reads Join makes of it (scenario shrinking-source; matched narrowly by scenario kind)."),
 "C15": dict(cat="exploration", ref="§3 C15", tech="runtime monitor: exact expected-sequence oracle from the reference model for seeded iterator queries, run under recover with post-return channel drain",
   text="Seeded option combinations (default / 1-3 inclusive / exclusive / unknown upper bounds, inclusive / exclusive lower bounds inside the range, undefined identifiers as bounds, amounts 0..size+2) on forked logs; sequence, closure, error and no-panic clauses; in child processes every kind of bounded iteration is parked at its hook points while a writer starts on the same log, and trimmed logs are iterated at their oldest entry before a writer runs (state-based deadlock classifier).",
   note="With several causally related inclusive bounds plus an amount the oracle tolerates a prefix short by at most #bounds-1 ('at most' in the property)."),
 "C16": dict(cat="exploration", ref="§3 C16", tech="runtime monitor: replay twins (same history, identical hashes) compared for bounded vs unbounded merge, every n in 0..total+3",
   text="For pairs of replicas of seeded histories and every bound the bounded merge is compared with the tail of the twin's unbounded linearisation; heads against the model; sequences of two bounded merges (first bound 0..total-1) followed by an append; pairs under the legacy codec (CIDv0 identifiers), sources trimmed before, sources ending in empty / nil payloads, pairs whose past holds refused operations; under an ordering with ties the same bounded merge on a replay twin must keep the same entries.",
   note="Sequence comparison only where the ordering is total on the merged set; counts/heads always."),
 "C17": dict(cat="fault_enumeration", ref="§3 C17", tech="online closure assertion inside the store's Add (under its mutex) + crash-point enumeration: reload of every published hash from every store prefix; injected write failures",
   text="Every block write of seeded histories is checked for causal closure with the codec in use; every returned manifest / entry hash / head list is reloaded from the store prefix at its return and from later prefixes (thorough: every later prefix) and compared (log id, entries, heads, values) with the state recorded at that moment; store outages of 1, 2, 3 or 6 consecutive block writes, and a context that ends while the write is pending at a store that honours contexts: an operation during which the store refused a write must fail, leave the log unchanged and never return a hash the store does not hold; in half of the histories one recovering process performs all reloads with one reused options value; payloads that are not text, content compared on reload; a log started without a link key and continued with one.",
   note="Crash = loss of all block writes after a prefix; single block writes are atomic. Reload clauses under default and link codecs; closure assertion under all three."),
 "C18": dict(cat="exploration", ref="§3 C18", tech="runtime monitor: byte-pattern search on raw blocks captured at Add time (8 encodings per link) + three independent reader codecs (same / no / other key)",
   text="For every appended entry with links under a link key: no encoding of any link in the stored bytes, no traversable IPLD links, same-key reader recovers identical lists, verifies, loads and merges the log (also four same-key readers merging one loaded log at the same time; twin entries with different pointer counts written through one codec instance); readers whose key differs in one bit (all 256), no-key and other-key readers obtain no links; every entry a link-key replica holds (created, loaded with or without the key, hand-built, copies, the writer's object after another key's Verify) is stored AGAIN through the keyed codec and the new block scanned and read with the same and another key; links that are CIDv0 identifiers.",
   note="Nonce reuse / ciphertext indistinguishability are not observable by this monitor."),
 "C19": dict(cat="exploration", ref="§3 C19", tech="exhaustive axiom evaluation over a finite synthetic domain (39204 pairs, 7.76M triples) + all permutations of sampled multisets + draws from real histories",
   text="Domain: 11 clock times (incl. 10^10, 2^40, 2^53, 2^53+1, 2^62, MaxInt) x 6 clock ids x 3 hashes, plus 27 identifiers of mixed CID versions over 9 digests. Irreflexivity, totality, antisymmetry, transitivity, causality-respect, default = hash-tiebreak on distinct clocks, first-write-wins = reverse, NoZeroes transparency, Sort permutation/determinism (also for lists with one undefined element), one unhashed entry among hashed ones, independence from an entry object's history (objects compared before and then re-hashed / re-clocked compare like fresh ones). The pair/triple axioms are enumerated completely over the stated domain (exhaustive: true).",
   note="Clock times are non-negative as in every entry the library creates."),
 "C20": dict(cat="exploration", ref="§3 C20", tech="runtime monitor: reference map id -> key bytes over seeded interleavings across keystore instances sharing an instrumented datastore; identity clauses verified directly with libp2p",
   text="1-4 real Keystore instances over one datastore, up to 400 ids (beyond the 128-entry cache), restarts; HasKey/GetKey on every instance after every creation; identity stability (also after requests and identity creations under an ended context, on context-honouring and context-ignoring datastores) and the three signature clauses, also for the identity a reader decodes from a stored entry; path-like ids, the empty id, keys created again, keystores over another datastore, one provider object serving two identities; a read that is pending while the key is created through another keystore (the request started afterwards must see the key); identity creation retried with the same options value after a failed datastore write; identities named like an earlier identity id; concurrent use of shared instances under the race detector (quick: a slice, thorough: all).",
   note="Each id is created once (a second raw CreateKey on the same id replaces the key and is outside 'a key once created'). One recorded finding: ids that differ only by path cleaning (doubled separators, dot segments) share one datastore key; matched narrowly (the probe checks that both ids clean to the same key)."),
}
PENDING = {}
ALL = ["C%02d" % i for i in range(1, 21)]

def main():
    checks = []
    for pid in ALL:
        if pid not in CHECKS:
            continue
        c = CHECKS[pid]
        checks.append({
            "property_id": pid,
            "quick_cmd": f"./check {pid} quick",
            "thorough_cmd": f"./check {pid} thorough",
            "evidence_file": f"/verif/evidence/{pid}.json",
            "replay_cmd_template": "./check --replay {path}",
            "engine": "vcheck",
            "level_claimed": {"category": c["cat"], "text": c["text"], "design_ref": c["ref"]},
            "level_note": c["note"],
            "technique": c["tech"],
        })
    na = [{"property_id": p, "reason": PENDING.get(p, "monitor not built yet in this round (planned in DESIGN.md §3); not claimed until its check exists")} for p in ALL if p not in CHECKS]
    m = {
        "version": 1,
        "setup_cmd": "./check --setup",
        "hooks": {
            "guard": "verif (Go build tag)",
            "enable": "go build -tags verif (the harness module replaces berty.tech/go-ipfs-log with /repo, so every check is compiled from /repo's working tree)",
            "baseline_off_cmd": "cd /repo && GOFLAGS=-mod=mod GOPROXY=off GOSUMDB=off GOTOOLCHAIN=local go test -json -vet=off -count=1 -timeout 25m ./...",
            "source_commits": repo_commits("verif:"),
            "add_only": True,
        },
        "engines": [{"name": "vcheck", "path": "/verif/harness", "serves_properties": [c["property_id"] for c in checks],
                     "kind_free_text": "Go harness: instrumented in-memory block store, seeded history generator, reference model, per-property runtime monitors, child-process runner with journal, race-detector runs, porcupine history checking"}],
        "checks": checks,
        "not_applicable": na,
        "notes": "Technique family: runtime monitoring and sanitizers. Every check observes executions of the real code in /repo. Genuine defects found by the monitors and repaired are listed under 'fixed' in /verif/known_findings.json; recorded (unrepaired) findings under 'findings'.",
    }
    json.dump(m, open(os.path.join(ROOT, "MANIFEST.json"), "w"), indent=1)
    print("MANIFEST.json written:", len(checks), "checks,", len(na), "not applicable")

if __name__ == "__main__":
    main()
