// Package store is the instrumented in-memory block store that stands in for
// an IPFS node. It is the single I/O boundary of go-ipfs-log: every block the
// library writes or reads passes through Add / Get here, where it is recorded,
// can be delayed, reordered, failed or replaced, and where the causal-closure
// monitor (C17) runs under the store's own mutex.
package store

import (
	"context"
	"errors"
	"fmt"
	"math/rand"
	"runtime"
	"sync"
	"sync/atomic"
	"time"

	"github.com/ipfs/boxo/path"
	blocks "github.com/ipfs/go-block-format"
	"github.com/ipfs/go-cid"
	cbornode "github.com/ipfs/go-ipld-cbor"
	format "github.com/ipfs/go-ipld-format"
	"github.com/ipfs/go-merkledag"
	coreiface "github.com/ipfs/kubo/core/coreiface"
	"github.com/ipfs/kubo/core/coreiface/options"
)

// Fault kinds for Get.
type Fault int

const (
	OK       Fault = iota
	Absent         // ErrNotFound
	Error          // generic I/O error
	Garbage        // block bytes that do not decode as an IPLD node
	Hang           // never completes; returns ctx.Err() once the context ends
	Replace        // serve ReplaceWith[cid] instead of the stored bytes
	CtxError       // an error of the block service's OWN making that wraps context.Canceled / DeadlineExceeded (an internal deadline), while the caller's context is alive
)

func (f Fault) String() string {
	return [...]string{"ok", "absent", "error", "garbage", "hang", "replace", "ctx-error"}[f]
}

// Event is one record of the store's log.
type Event struct {
	Seq  int64  `json:"seq"`
	Kind string `json:"kind"` // add | add-fail | get-call | get-ret | pin | remove
	Cid  string `json:"cid"`
	Res  string `json:"res,omitempty"` // get-call: "ctx-done" when the request's context had already ended
	// get-call: milliseconds left until the deadline of the request's context (0 = the context has no deadline)
	DlMs int64 `json:"dl_ms,omitempty"`
}

// Policy for releasing gated Gets.
type Policy int

const (
	FIFO Policy = iota
	LIFO
	Random
)

type parked struct {
	c    cid.Cid
	seq  int64
	done chan struct{}
}

type Store struct {
	mu     sync.Mutex
	blocks map[string][]byte // cid.KeyString -> raw
	order  []cid.Cid         // first-add order
	events []Event
	seq    int64
	record bool

	faults  map[string]Fault
	replace map[string][]byte

	// OnAdd, if set, is called under mu for every Add before the block is stored.
	// has reports whether a cid is already in the store.
	OnAdd func(c cid.Cid, raw []byte, has func(cid.Cid) bool)
	// AddFail, if set, decides (under mu) whether the n-th Add (1-based) fails.
	AddFail func(n int, c cid.Cid) bool
	adds    int
	// AddStall, if set, decides (under mu) whether the n-th Add stalls until the caller's context ends (OnStall is
	// called first, outside mu - typically it ends that context) and is then dropped with the context's error.
	// PinDelay: how long a pin request takes.
	PinDelay time.Duration
	AddStall func(n int, c cid.Cid) bool
	OnStall  func()
	stalls   int

	// gating
	gated    bool
	parkedQ  []*parked
	inflight int64 // Gets between call and return
	calls    int64 // total get calls (stamp)
}

func New() *Store {
	return &Store{blocks: map[string][]byte{}, faults: map[string]Fault{}, replace: map[string][]byte{}, record: true}
}

func (s *Store) SetRecord(on bool) { s.mu.Lock(); s.record = on; s.mu.Unlock() }

func (s *Store) ev(kind string, c cid.Cid, res string) {
	s.seq++
	if s.record {
		s.events = append(s.events, Event{Seq: s.seq, Kind: kind, Cid: c.String(), Res: res})
	}
}

// Events returns a copy of the event log.
func (s *Store) Events() []Event {
	s.mu.Lock()
	defer s.mu.Unlock()
	out := make([]Event, len(s.events))
	copy(out, s.events)
	return out
}

func (s *Store) ResetEvents() { s.mu.Lock(); s.events = nil; s.mu.Unlock() }

func (s *Store) Seq() int64 { s.mu.Lock(); defer s.mu.Unlock(); return s.seq }

func (s *Store) Inflight() int64 { return atomic.LoadInt64(&s.inflight) }
func (s *Store) Calls() int64    { return atomic.LoadInt64(&s.calls) }

// NBlocks is the number of distinct blocks stored.
func (s *Store) NBlocks() int { s.mu.Lock(); defer s.mu.Unlock(); return len(s.order) }

// Order returns the first-add order of the blocks.
func (s *Store) Order() []cid.Cid {
	s.mu.Lock()
	defer s.mu.Unlock()
	return append([]cid.Cid(nil), s.order...)
}

func (s *Store) Has(c cid.Cid) bool {
	s.mu.Lock()
	defer s.mu.Unlock()
	_, ok := s.blocks[c.KeyString()]
	return ok
}

func (s *Store) Raw(c cid.Cid) ([]byte, bool) {
	s.mu.Lock()
	defer s.mu.Unlock()
	b, ok := s.blocks[c.KeyString()]
	return b, ok
}

// PutRaw stores raw bytes under a cid without any monitor (used to plant hostile blocks).
func (s *Store) PutRaw(c cid.Cid, raw []byte) {
	s.mu.Lock()
	defer s.mu.Unlock()
	if _, ok := s.blocks[c.KeyString()]; !ok {
		s.order = append(s.order, c)
	}
	s.blocks[c.KeyString()] = raw
}

// Prefix returns a fresh store holding the first p distinct blocks added.
func (s *Store) Prefix(p int) *Store {
	s.mu.Lock()
	defer s.mu.Unlock()
	n := New()
	n.record = false
	if p > len(s.order) {
		p = len(s.order)
	}
	for _, c := range s.order[:p] {
		n.blocks[c.KeyString()] = s.blocks[c.KeyString()]
		n.order = append(n.order, c)
	}
	return n
}

// Clone copies all blocks (no faults, no events).
func (s *Store) Clone() *Store { return s.Prefix(1 << 30) }

func (s *Store) SetFault(c cid.Cid, f Fault) {
	s.mu.Lock()
	defer s.mu.Unlock()
	if f == OK {
		delete(s.faults, c.KeyString())
	} else {
		s.faults[c.KeyString()] = f
	}
}

func (s *Store) SetReplace(c cid.Cid, raw []byte) {
	s.mu.Lock()
	defer s.mu.Unlock()
	s.faults[c.KeyString()] = Replace
	s.replace[c.KeyString()] = raw
}

func (s *Store) ClearFaults() {
	s.mu.Lock()
	defer s.mu.Unlock()
	s.faults = map[string]Fault{}
	s.replace = map[string][]byte{}
}

// ---------------------------------------------------------------- gating

// Gate makes every subsequent Get park until released by Drive.
func (s *Store) Gate(on bool) {
	s.mu.Lock()
	s.gated = on
	q := s.parkedQ
	if !on {
		s.parkedQ = nil
	}
	s.mu.Unlock()
	if !on {
		for _, p := range q {
			close(p.done)
		}
	}
}

func (s *Store) parkedLen() int { s.mu.Lock(); defer s.mu.Unlock(); return len(s.parkedQ) }

// settle waits (bounded) until no new Get call has arrived for a little while.
func (s *Store) settle() {
	last := s.Calls()
	stable := 0
	for i := 0; i < 4000 && stable < 40; i++ {
		runtime.Gosched()
		if i%16 == 15 {
			time.Sleep(20 * time.Microsecond)
		}
		if c := s.Calls(); c != last {
			last, stable = c, 0
		} else {
			stable++
		}
	}
}

// Drive releases parked Gets one at a time following the policy until stop is
// closed. Timing here only influences which completion order is realised,
// never a verdict. It returns the sequence of released cids.
func (s *Store) Drive(pol Policy, rng *rand.Rand, stop <-chan struct{}, prio func(c cid.Cid) int) []string {
	var released []string
	for {
		select {
		case <-stop:
			return released
		default:
		}
		if s.parkedLen() == 0 {
			runtime.Gosched()
			time.Sleep(100 * time.Microsecond) // idle: burn little CPU (monitors account the process CPU time to the library)
			continue
		}
		s.settle()
		s.mu.Lock()
		n := len(s.parkedQ)
		if n == 0 {
			s.mu.Unlock()
			continue
		}
		i := 0
		switch pol {
		case LIFO:
			i = n - 1
		case Random:
			i = rng.Intn(n)
		}
		if prio != nil {
			best := prio(s.parkedQ[0].c)
			i = 0
			for j, p := range s.parkedQ {
				if v := prio(p.c); v < best {
					best, i = v, j
				}
			}
		}
		p := s.parkedQ[i]
		s.parkedQ = append(s.parkedQ[:i:i], s.parkedQ[i+1:]...)
		s.mu.Unlock()
		released = append(released, p.c.String())
		before := s.Inflight()
		close(p.done)
		// wait for that Get to return (bounded)
		for k := 0; k < 2000 && s.Inflight() >= before && s.parkedLen() == n-1; k++ {
			runtime.Gosched()
		}
	}
}

// ---------------------------------------------------------------- CoreAPI

type API struct {
	coreiface.CoreAPI // nil: any other call panics, the library only uses Dag() and Pin()
	s                 *Store
}

func (s *Store) API() coreiface.CoreAPI { return &API{s: s} }

func (a *API) Dag() coreiface.APIDagService { return &dagSvc{a.s} }
func (a *API) Pin() coreiface.PinAPI        { return &pinAPI{s: a.s} }

type pinAPI struct {
	coreiface.PinAPI
	s *Store
}

func (p *pinAPI) Add(ctx context.Context, pth path.Path, _ ...options.PinAddOption) error {
	p.s.mu.Lock()
	p.s.seq++
	if p.s.record {
		p.s.events = append(p.s.events, Event{Seq: p.s.seq, Kind: "pin", Cid: pth.String()})
	}
	d := p.s.PinDelay
	p.s.mu.Unlock()
	if d > 0 {
		time.Sleep(d) // a recursive pin takes its time (it walks the DAG below the block)
	}
	return nil
}

type dagSvc struct{ s *Store }

var ErrInjected = errors.New("injected store error")

func (d *dagSvc) Add(ctx context.Context, n format.Node) error {
	s := d.s
	s.mu.Lock()
	defer s.mu.Unlock()
	s.adds++
	c := n.Cid()
	if s.AddStall != nil && s.AddStall(s.adds, c) {
		// a store that honours the caller's context: the write is pending when the context ends, and is dropped
		s.ev("add-stall", c, "")
		s.stalls++
		s.mu.Unlock()
		if s.OnStall != nil {
			s.OnStall()
		}
		select {
		case <-ctx.Done():
		case <-time.After(5 * time.Second):
		}
		time.Sleep(20 * time.Millisecond) // (the store notices the cancellation a little later than the caller)
		s.mu.Lock()
		if err := ctx.Err(); err != nil {
			return err
		}
		return ErrInjected
	}
	if s.AddFail != nil && s.AddFail(s.adds, c) {
		s.ev("add-fail", c, "")
		return ErrInjected
	}
	raw := n.RawData()
	if s.OnAdd != nil {
		s.OnAdd(c, raw, func(x cid.Cid) bool { _, ok := s.blocks[x.KeyString()]; return ok })
	}
	if _, ok := s.blocks[c.KeyString()]; !ok {
		s.order = append(s.order, c)
		s.blocks[c.KeyString()] = append([]byte(nil), raw...)
		s.ev("add", c, "new")
	} else {
		s.ev("add", c, "dup")
	}
	return nil
}

func (d *dagSvc) AddMany(ctx context.Context, ns []format.Node) error {
	for _, n := range ns {
		if err := d.Add(ctx, n); err != nil {
			return err
		}
	}
	return nil
}

func Decode(c cid.Cid, raw []byte) (format.Node, error) {
	blk, err := blocks.NewBlockWithCid(raw, c)
	if err != nil {
		return nil, err
	}
	switch c.Type() {
	case cid.DagCBOR:
		return cbornode.DecodeBlock(blk)
	case cid.DagProtobuf:
		return merkledag.DecodeProtobufBlock(blk)
	case cid.Raw:
		return merkledag.DecodeRawBlock(blk)
	}
	return nil, fmt.Errorf("unsupported codec %x", c.Type())
}

func (d *dagSvc) Get(ctx context.Context, c cid.Cid) (format.Node, error) {
	s := d.s
	atomic.AddInt64(&s.inflight, 1)
	atomic.AddInt64(&s.calls, 1)
	defer atomic.AddInt64(&s.inflight, -1)

	s.mu.Lock()
	if ctx.Err() != nil {
		s.ev("get-call", c, "ctx-done")
	} else {
		s.ev("get-call", c, "")
	}
	if dl, ok := ctx.Deadline(); ok && s.record && len(s.events) > 0 {
		ms := int64(time.Until(dl) / time.Millisecond)
		if ms < 1 {
			ms = 1
		}
		s.events[len(s.events)-1].DlMs = ms
	}
	f := s.faults[c.KeyString()]
	var pk *parked
	if s.gated {
		pk = &parked{c: c, seq: s.seq, done: make(chan struct{})}
		s.parkedQ = append(s.parkedQ, pk)
	}
	s.mu.Unlock()

	fin := func(res string) {
		s.mu.Lock()
		s.ev("get-ret", c, res)
		s.mu.Unlock()
	}

	if pk != nil {
		select {
		case <-pk.done:
		case <-ctx.Done():
			s.mu.Lock()
			for i, p := range s.parkedQ {
				if p == pk {
					s.parkedQ = append(s.parkedQ[:i:i], s.parkedQ[i+1:]...)
					break
				}
			}
			s.mu.Unlock()
			fin("ctx")
			return nil, ctx.Err()
		}
	}
	if err := ctx.Err(); err != nil {
		fin("ctx")
		return nil, err
	}

	switch f {
	case Absent:
		fin("absent")
		return nil, format.ErrNotFound{Cid: c}
	case Error:
		fin("error")
		return nil, ErrInjected
	case CtxError:
		fin("ctx-error")
		if c.Bytes()[len(c.Bytes())-1]%2 == 0 {
			return nil, fmt.Errorf("block service: internal lookup gave up: %w", context.Canceled)
		}
		return nil, fmt.Errorf("block service: internal lookup gave up: %w", context.DeadlineExceeded)
	case Hang:
		<-ctx.Done()
		fin("hang-ctx")
		return nil, ctx.Err()
	}

	s.mu.Lock()
	raw, ok := s.blocks[c.KeyString()]
	if f == Replace {
		raw, ok = s.replace[c.KeyString()], true
	}
	s.mu.Unlock()
	if f == Garbage {
		raw, ok = []byte{0xff, 0x00, 0x13, 0x37}, true
	}
	if !ok {
		fin("absent")
		return nil, format.ErrNotFound{Cid: c}
	}
	n, err := Decode(c, raw)
	if err != nil {
		fin("undecodable")
		return nil, err
	}
	fin("ok")
	return n, nil
}

func (d *dagSvc) GetMany(ctx context.Context, cs []cid.Cid) <-chan *format.NodeOption {
	out := make(chan *format.NodeOption, len(cs))
	go func() {
		defer close(out)
		for _, c := range cs {
			n, err := d.Get(ctx, c)
			out <- &format.NodeOption{Node: n, Err: err}
		}
	}()
	return out
}

func (d *dagSvc) Remove(ctx context.Context, c cid.Cid) error {
	d.s.mu.Lock()
	defer d.s.mu.Unlock()
	if _, ok := d.s.blocks[c.KeyString()]; ok {
		delete(d.s.blocks, c.KeyString())
		for i, o := range d.s.order {
			if o.Equals(c) {
				d.s.order = append(d.s.order[:i:i], d.s.order[i+1:]...)
				break
			}
		}
		d.s.ev("remove", c, "")
	}
	return nil
}

func (d *dagSvc) RemoveMany(ctx context.Context, cs []cid.Cid) error {
	for _, c := range cs {
		_ = d.Remove(ctx, c)
	}
	return nil
}

func (d *dagSvc) Pinning() format.NodeAdder { return d }
