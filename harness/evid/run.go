// Package evid collects what a check run observed, applies the known-findings
// protocol to violations, and writes the evidence and replay files.
package evid

import (
	"encoding/json"
	"fmt"
	"io"
	"os"
	"path/filepath"
	"sort"
	"strings"
	"sync"
	"sync/atomic"
	"time"
)

// saturated is set once enough witnesses of violations have been collected:
// the remaining cases of a run are skipped (the verdict cannot change any more,
// and a hang-type defect must not cost minutes per case).
var saturated atomic.Bool

func IsSaturated() bool { return saturated.Load() }

// Out is where verdict lines go (the library itself prints diagnostics to os.Stdout, which main silences).
var Out io.Writer = os.Stdout

func Root() string {
	if r := os.Getenv("VERIF_ROOT"); r != "" {
		return r
	}
	return "/verif"
}

// OutRoot is where evidence and replay files are written: /verif, unless an experiment on a scratch copy of the
// repository redirects its output (VERIF_OUT) so that it cannot overwrite the evidence of real runs.
func OutRoot() string {
	if r := os.Getenv("VERIF_OUT"); r != "" {
		return r
	}
	return Root()
}

type Violation struct {
	Property  string         `json:"property"`
	Signature string         `json:"signature"` // monitor clause, e.g. C15/no-close
	Detail    map[string]any `json:"detail"`    // the failing input in small, matchable form
	Witness   any            `json:"witness,omitempty"`
	Message   string         `json:"message"`
}

type Finding struct {
	Property  string            `json:"property"`
	Signature string            `json:"signature"`
	Match     map[string]string `json:"match"`
	What      string            `json:"what"`
}

type KnownFile struct {
	Findings []Finding `json:"findings"`
	Fixed    []string  `json:"fixed"`
}

func LoadKnown() *KnownFile {
	k := &KnownFile{}
	b, err := os.ReadFile(filepath.Join(Root(), "known_findings.json"))
	if err != nil {
		return k
	}
	if err := json.Unmarshal(b, k); err != nil {
		fmt.Fprintf(os.Stderr, "known_findings.json unreadable: %v\n", err)
		os.Exit(2)
	}
	return k
}

func (k *KnownFile) Match(v *Violation) *Finding {
	for i := range k.Findings {
		f := &k.Findings[i]
		if f.Property != v.Property || f.Signature != v.Signature {
			continue
		}
		ok := true
		for key, want := range f.Match {
			got, has := v.Detail[key]
			if !has || fmt.Sprint(got) != want {
				ok = false
				break
			}
		}
		if ok {
			return f
		}
	}
	return nil
}

// Run accumulates one check run. Safe for concurrent use.
type Run struct {
	mu          sync.Mutex
	Prop        string
	Tier        string
	Seed        int64
	Level       string
	start       time.Time
	Evaluations int
	Distinct    map[string]bool
	Rule        string
	Samples     []any
	Extra       map[string]any
	Counters    map[string]int
	Assumptions []string
	Violations  []*Violation
	KnownHits   map[string]int
	Inconcl     []string
	known       *KnownFile
	MaxSamples  int
	Exhaustive  bool
	SaturateAt  int
	broken      []string
}

func NewRun(prop, tier string, seed int64, level string) *Run {
	return &Run{Prop: prop, Tier: tier, Seed: seed, Level: level, start: time.Now(),
		Distinct: map[string]bool{}, Extra: map[string]any{}, Counters: map[string]int{},
		KnownHits: map[string]int{}, known: LoadKnown(), MaxSamples: 3, SaturateAt: envInt("VERIF_SATURATE", 40)}
}

// NewPartialRun is used inside child processes: known findings are applied by the parent only.
func NewPartialRun(prop, tier string, seed int64) *Run {
	r := NewRun(prop, tier, seed, "")
	r.known = &KnownFile{}
	return r
}

func envInt(name string, def int) int {
	if v := os.Getenv(name); v != "" {
		n := 0
		if _, err := fmt.Sscan(v, &n); err == nil && n > 0 {
			return n
		}
	}
	return def
}

func (r *Run) Eval(n int) { r.mu.Lock(); r.Evaluations += n; r.mu.Unlock() }

// NonTrivial records the digest of a distinct non-trivial case.
func (r *Run) NonTrivial(digest string) { r.mu.Lock(); r.Distinct[digest] = true; r.mu.Unlock() }

func (r *Run) NonTrivialIf(cond bool, digest string) {
	if cond {
		r.NonTrivial(digest)
	}
}

func (r *Run) Count(key string, n int) { r.mu.Lock(); r.Counters[key] += n; r.mu.Unlock() }

func (r *Run) Sample(s any) {
	r.mu.Lock()
	if len(r.Samples) < r.MaxSamples {
		r.Samples = append(r.Samples, s)
	}
	r.mu.Unlock()
}

// NumSamples: how many sample cases were recorded so far (lets a monitor whose first case was skipped record a later one).
func (r *Run) NumSamples() int { r.mu.Lock(); defer r.mu.Unlock(); return len(r.Samples) }

// Broken marks the run as a harness failure (exit 2), never a verdict on the property.
func (r *Run) Broken(why string) {
	r.mu.Lock()
	r.broken = append(r.broken, why)
	r.mu.Unlock()
}

func (r *Run) Inconclusive(why string) {
	r.mu.Lock()
	if len(r.Inconcl) < 20 {
		r.Inconcl = append(r.Inconcl, why)
	}
	r.Counters["inconclusive"]++
	r.mu.Unlock()
}

// Violate records a violation (or a known finding).
func (r *Run) Violate(sig string, detail map[string]any, witness any, format string, args ...any) {
	v := &Violation{Property: r.Prop, Signature: sig, Detail: detail, Witness: witness, Message: fmt.Sprintf(format, args...)}
	r.AddViolation(v)
}

func (r *Run) AddViolation(v *Violation) {
	r.mu.Lock()
	defer r.mu.Unlock()
	if f := r.known.Match(v); f != nil {
		r.KnownHits[f.What]++
		return
	}
	r.Counters["violations_total"]++
	if os.Getenv("VERIF_BREAKDOWN") != "" {
		b, _ := json.Marshal(v.Detail)
		r.Counters["viol:"+v.Signature+" "+string(b)]++
	}
	// keep at most 3 witnesses per signature, 12 in total
	n := 0
	for _, o := range r.Violations {
		if o.Signature == v.Signature {
			n++
		}
	}
	if n < 3 && len(r.Violations) < 12 {
		r.Violations = append(r.Violations, v)
	}
	if r.Counters["violations_total"] >= r.SaturateAt {
		saturated.Store(true)
	}
}

// Partial is what a child process hands back to its parent.
type Partial struct {
	Evaluations int            `json:"evaluations"`
	Distinct    []string       `json:"distinct"`
	Samples     []any          `json:"samples"`
	Counters    map[string]int `json:"counters"`
	Violations  []*Violation   `json:"violations"`
	Inconcl     []string       `json:"inconclusive"`
	Extra       map[string]any `json:"extra"`
	Complete    bool           `json:"complete"`
}

func (r *Run) ToPartial() *Partial {
	r.mu.Lock()
	defer r.mu.Unlock()
	// deep copies: the result is marshalled outside the lock while workers keep counting
	p := &Partial{Evaluations: r.Evaluations, Counters: map[string]int{}, Extra: map[string]any{}}
	p.Samples = append(p.Samples, r.Samples...)
	p.Inconcl = append(p.Inconcl, r.Inconcl...)
	for k, v := range r.Counters {
		p.Counters[k] = v
	}
	for k, v := range r.Extra {
		p.Extra[k] = v
	}
	for d := range r.Distinct {
		p.Distinct = append(p.Distinct, d)
	}
	p.Violations = append(p.Violations, r.Violations...)
	return p
}

func (r *Run) Merge(p *Partial) {
	r.mu.Lock()
	r.Evaluations += p.Evaluations
	for _, d := range p.Distinct {
		r.Distinct[d] = true
	}
	for _, s := range p.Samples {
		if len(r.Samples) < r.MaxSamples {
			r.Samples = append(r.Samples, s)
		}
	}
	for k, v := range p.Counters {
		if k == "violations_total" {
			continue
		}
		r.Counters[k] += v
	}
	for _, w := range p.Inconcl {
		if len(r.Inconcl) < 20 {
			r.Inconcl = append(r.Inconcl, w)
		}
	}
	r.mu.Unlock()
	for _, v := range p.Violations {
		r.AddViolation(v)
	}
}

// Finish prints verdict lines, writes evidence + replay files, and returns the exit code.
func (r *Run) Finish() int {
	r.mu.Lock()
	defer r.mu.Unlock()
	root := OutRoot()
	_ = os.MkdirAll(filepath.Join(root, "evidence"), 0o755)
	_ = os.MkdirAll(filepath.Join(root, "replays"), 0o755)
	wall := time.Since(r.start).Seconds()

	var knownWhats []string
	for w := range r.KnownHits {
		knownWhats = append(knownWhats, w)
	}
	sort.Strings(knownWhats)
	for _, w := range knownWhats {
		fmt.Fprintf(Out, "KNOWN-FINDING: property=%s %s (seen %d times this run)\n", r.Prop, w, r.KnownHits[w])
	}

	for i, v := range r.Violations {
		p := filepath.Join(root, "replays", fmt.Sprintf("%s-%s-%d-%d.json", r.Prop, r.Tier, r.Seed, i))
		b, _ := json.MarshalIndent(map[string]any{"property": v.Property, "signature": v.Signature, "detail": v.Detail,
			"message": v.Message, "witness": v.Witness, "seed": r.Seed, "tier": r.Tier}, "", " ")
		_ = os.WriteFile(p, b, 0o644)
		fmt.Fprintf(Out, "VIOLATION property=%s replay=%s\n", r.Prop, p)
		fmt.Fprintf(Out, "  [%s] %s\n", v.Signature, strings.ReplaceAll(v.Message, "\n", "\n  "))
	}

	cov := map[string]any{
		"evaluations":         r.Evaluations,
		"distinct_nontrivial": len(r.Distinct),
		"rule":                r.Rule,
		"samples":             r.Samples,
		"counters":            r.Counters,
	}
	if r.Exhaustive {
		cov["exhaustive"] = true
	}
	for k, v := range r.Extra {
		cov[k] = v
	}
	if len(r.Inconcl) > 0 {
		cov["inconclusive_cases"] = r.Inconcl
	}
	if len(knownWhats) > 0 {
		cov["known_findings_seen"] = r.KnownHits
	}
	ev := map[string]any{
		"property_id": r.Prop,
		"tier":        r.Tier,
		"seed":        r.Seed,
		"level":       r.Level,
		"coverage":    cov,
		"assumptions": append([]string{"the harness block store, deterministic key derivation and the reference model are trusted"}, r.Assumptions...),
		"wall_s":      wall,
		"violations":  r.Counters["violations_total"],
	}
	b, _ := json.MarshalIndent(ev, "", " ")
	if err := os.WriteFile(filepath.Join(root, "evidence", r.Prop+".json"), b, 0o644); err != nil {
		fmt.Fprintf(os.Stderr, "cannot write evidence: %v\n", err)
		return 2
	}
	verdict := "HELD on what was observed"
	code := 0
	if len(r.Violations) > 0 {
		verdict, code = "VIOLATED", 1
	} else if len(r.broken) > 0 {
		verdict, code = "BROKEN CHECK: "+strings.Join(r.broken, "; "), 2
	} else if r.Evaluations == 0 || len(r.Distinct) < 2 || len(r.Samples) == 0 {
		verdict, code = "BROKEN CHECK: observed nothing (or recorded no sample case)", 2
	}
	fmt.Fprintf(Out, "%s %s seed=%d: %s; evaluations=%d distinct_nontrivial=%d inconclusive=%d wall=%.1fs\n",
		r.Prop, r.Tier, r.Seed, verdict, r.Evaluations, len(r.Distinct), r.Counters["inconclusive"], wall)
	var ks []string
	for k := range r.Counters {
		ks = append(ks, k)
	}
	sort.Strings(ks)
	for _, k := range ks {
		fmt.Fprintf(Out, "  %-38s %d\n", k, r.Counters[k])
	}
	return code
}
