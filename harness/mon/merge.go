package mon

import (
	"bytes"
	"fmt"
	"math/rand"
	"strings"
	"sync/atomic"
	"time"

	ipfslog "berty.tech/go-ipfs-log"
	"berty.tech/go-ipfs-log/accesscontroller"
	"berty.tech/go-ipfs-log/entry"
	idp "berty.tech/go-ipfs-log/identityprovider"
	"berty.tech/go-ipfs-log/iface"
	"github.com/ipfs/go-cid"

	"verifharness/evid"
	"verifharness/hx"
	"verifharness/model"
)

// ---------------------------------------------------------------- policies

type policy struct {
	name     string
	denyID   string // deny entries whose identity id equals this
	denyPay  func(p []byte) bool
	nth      int64 // deny the n-th call (1-based), 0 = off
	calls    int64
	inspect  bool // look at the log entries through the context
	inspects int64
}

var errDenied = fmt.Errorf("denied by test policy")

func (p *policy) CanAppend(e accesscontroller.LogEntry, _ idp.Interface, c accesscontroller.CanAppendAdditionalContext) error {
	n := atomic.AddInt64(&p.calls, 1)
	if p.inspect && c != nil {
		atomic.AddInt64(&p.inspects, int64(len(c.GetLogEntries())))
	}
	if p.nth > 0 && n == p.nth {
		return errDenied
	}
	if p.denyID != "" && e.GetIdentity() != nil && e.GetIdentity().ID == p.denyID {
		return errDenied
	}
	if p.denyPay != nil && p.denyPay(e.GetPayload()) {
		return errDenied
	}
	return nil
}

// denies reports whether the deterministic part of the policy denies an entry.
func (p *policy) denies(e iface.IPFSLogEntry) bool {
	if p.denyID != "" && e.GetIdentity() != nil && e.GetIdentity().ID == p.denyID {
		return true
	}
	return p.denyPay != nil && p.denyPay(e.GetPayload())
}

func lastByteOdd(p []byte) bool { return len(p) > 0 && p[len(p)-1]%5 == 0 }

// ---------------------------------------------------------------- corruption

var corruptKinds = []string{"sigflip", "sigother", "nosig", "nokey", "otherkey", "payload", "clock", "nextdrop", "foreignid", "logid-signed", "noidentity"}

// corrupt returns a tampered copy of e with the original hash kept. invalid=false
// for kinds whose copy is not a candidate at all (foreign id).
func corrupt(kind string, e iface.IPFSLogEntry, other iface.IPFSLogEntry, rng *rand.Rand) (out *entry.Entry, invalid bool) {
	c := e.Copy().(*entry.Entry)
	c.Payload = append([]byte(nil), c.Payload...)
	c.Sig = append([]byte(nil), c.Sig...)
	c.Key = append([]byte(nil), c.Key...)
	switch kind {
	case "sigflip":
		c.Sig[rng.Intn(len(c.Sig))] ^= 1 << uint(rng.Intn(8))
	case "sigother":
		c.Sig = append([]byte(nil), other.GetSig()...)
	case "nosig":
		c.Sig = nil
	case "nokey":
		c.Key = nil
	case "otherkey":
		c.Key = append([]byte(nil), other.GetKey()...)
	case "payload":
		nonASCII := false
		for _, b := range c.Payload {
			nonASCII = nonASCII || b >= 0x80
		}
		switch {
		case len(c.Payload) == 0:
			c.Payload = []byte{'x'}
		case nonASCII:
			// (a bit flip inside an invalid UTF-8 sequence does not change the signed bytes - the recorded C07 finding;
			// this tamper must be one the signature covers)
			c.Payload = append(c.Payload, 'x')
		default:
			c.Payload[rng.Intn(len(c.Payload))] ^= 0x01
		}
	case "clock":
		c.Clock = entry.NewLamportClock(c.Clock.ID, c.Clock.Time+1)
	case "nextdrop":
		if len(c.Next) == 0 {
			c.Payload = append(c.Payload, 'x')
		} else {
			c.Next = c.Next[1:]
		}
	case "foreignid":
		c.LogID = c.LogID + "-x"
		return c, false
	case "noidentity":
		// the identity record is not part of the signed content: the entry stays verifiable, and whether it may
		// be merged is the access controller's decision like for any other entry
		c.Identity = nil
		return c, false
	case "logid-signed":
		// keep the log id field but the signature was made for another id: simulate by
		// re-labelling a foreign log's entry with this id (signature no longer matches)
		c.LogID = e.GetLogID()
		c.Payload = append(c.Payload, 'x')
	}
	return c, true
}

// candidates mirrors the definition of "candidate": entries reachable from the
// source heads through predecessors that are new to the destination and carry its id.
func candidates(src map[string]iface.IPFSLogEntry, heads []string, dest model.Set, destID string) []string {
	var out []string
	seen := map[string]bool{}
	stack := append([]string(nil), heads...)
	for len(stack) > 0 {
		h := stack[0]
		stack = stack[1:]
		if seen[h] {
			continue
		}
		seen[h] = true
		e, ok := src[h]
		if !ok {
			continue
		}
		if _, in := dest[h]; in {
			continue
		}
		if e.GetLogID() != destID {
			continue
		}
		out = append(out, h)
		for _, n := range e.GetNext() {
			stack = append(stack, n.String())
		}
	}
	return out
}

// ---------------------------------------------------------------- C06

func CheckC06(run *evid.Run) {
	run.Rule = "seeded honest histories; a source log is rebuilt with NewLog(Entries,Heads) after corrupting 0..k entries at seeded positions (head / interior / root, several at once; kinds: signature bit flip, signature of another entry, empty signature, empty key, key of another identity, tampered payload / clock / predecessor list with the hash kept, foreign log id) and merged into another replica or a fresh log under seeded policies (allow-all, deny-by-writer, deny-by-payload, deny-nth-call, context-inspecting); plus chains of up to 300 candidates; plus denied appends; plus Verify + merge-into-fresh-replica of every appended entry under each codec (default, link-encrypting, legacy protobuf). Non-trivial case = a merge with >=1 candidate that is invalid or denied, or a denied append, or a non-default codec; distinct = (corruption kinds, positions class, policy, codec, candidate-count bucket)"
	run.Assumptions = []string{"runs in child processes: a panic on a verification goroutine kills the child and is attributed through the journal"}
	o := ChildOpts{Batches: pick(run.Tier, 16, 64), Race: run.Tier == "thorough",
		OnDeath: func(last map[string]any, tail, kind string) (string, map[string]any) {
			return "C06/process-died", det("kind", kind, "codec", last["codec"], "phase", last["phase"])
		}}
	RunChildren(run, o)
}

func init() { childFns["C06"] = c06Child }

func c06Child(run *evid.Run, batch, nb int, j *Journal) {
	total := pick(run.Tier, 1600, 24000)
	for i := batch; i < total && !evid.IsSaturated(); i += nb {
		c06Case(run, i, j)
	}
}

func c06Case(run *evid.Run, i int, j *Journal) {
	codecs := []string{"cbor", "cbor", "link", "pb"}
	rng := rand.New(rand.NewSource(run.Seed*9973 + int64(i)))
	opts := hx.GenOpts{MaxSteps: pick(run.Tier, 30, 60), Orders: []string{"default", "hash"}, Codecs: []string{codecs[i%len(codecs)]}, Huge: true}
	h := hx.Gen(run.Seed, i, opts)
	big := i%16 == 5
	j.Log(map[string]any{"case": i, "codec": h.Codec, "phase": "history", "hist": fmt.Sprintf("seed=%d idx=%d", h.Seed, h.Idx)})
	x := hx.NewExec(h)
	wit := func(at string) map[string]any { m := histSample(h); m["case"] = i; m["at"] = at; return m }
	provider := x.W.Idents[0].Provider

	// (e) every appended entry verifies and merges into a fresh permissive replica
	var appended []iface.IPFSLogEntry
	for k, s := range h.Steps {
		if s.Op == "join" {
			// honest merges are exercised too, but their failure is (e)'s business below
			j.Log(map[string]any{"case": i, "codec": h.Codec, "phase": "honest-join", "step": k})
		}
		res := x.Do(k)
		if s.Op == "append" && res.Err == nil {
			appended = append(appended, res.Entry)
		}
		if s.Op == "join" && res.Err != nil {
			run.Violate("C06/honest-merge-rejected", det("codec", h.Codec), wit(fmt.Sprintf("step %d %s", k, s)), "merge of honestly appended entries failed under codec %s: %v", h.Codec, res.Err)
			// apply it through a permissive path is impossible; continue with what we have
		}
	}
	// unusual but legal inputs: empty and nil payloads are created and signed like any other
	if i%3 == 0 {
		l := x.Logs[rng.Intn(h.Replicas)]
		for _, p := range [][]byte{{}, nil} {
			e, err := l.Append(x.W.Ctx, p, nil)
			if err != nil {
				run.Violate("C06/append-error", det("codec", h.Codec, "payload", "empty"), wit("append of an empty payload"), "append of an empty payload failed: %v", err)
			} else {
				appended = append(appended, e)
				run.Count("appended_empty_payload", 1)
			}
		}
	}
	// payloads are opaque bytes: binary, invalid UTF-8, NUL - written by Append, verified in memory AND read back below
	if i%2 == 1 {
		l := x.Logs[rng.Intn(h.Replicas)]
		for _, class := range []string{"binary", "invalid-utf8", "nul"} {
			e, err := l.Append(x.W.Ctx, classPayload(class, fmt.Sprintf("%d.%d/%s", h.Seed, h.Idx, class), rng), nil)
			if err != nil {
				run.Violate("C06/append-error", det("codec", h.Codec, "payload", class), wit("append of a "+class+" payload"), "append of a %s payload failed: %v", class, err)
			} else {
				appended = append(appended, e)
				run.Count("appended_non_text_payload", 1)
			}
		}
	}
	if big {
		l := x.Logs[0]
		for k := 0; k < 60+rng.Intn(240); k++ {
			e, err := l.Append(x.W.Ctx, []byte(fmt.Sprintf("%d.%d/big%d", h.Seed, h.Idx, k)), nil)
			if err == nil {
				appended = append(appended, e)
			}
		}
	}
	j.Log(map[string]any{"case": i, "codec": h.Codec, "phase": "verify-appended"})
	for _, e := range appended {
		if err := e.Verify(provider, x.W.IOv()); err != nil {
			run.Violate("C06/appended-not-verifiable", det("codec", h.Codec, "links", len(e.GetNext())+len(e.GetRefs()) > 0), wit("verify "+hx.Short(e.GetHash().String())), "entry produced by Append does not verify under codec %s: %v", h.Codec, err)
			break
		}
	}
	run.Count("appended_entries_verified", len(appended))
	j.Log(map[string]any{"case": i, "codec": h.Codec, "phase": "merge-into-fresh"})
	for r, l := range x.Logs {
		if l.Len() == 0 {
			continue
		}
		fresh := x.W.NewLog(0)
		if _, err := fresh.Join(l, -1); err != nil {
			run.Violate("C06/appended-not-mergeable", det("codec", h.Codec), wit(fmt.Sprintf("fresh<-r%d", r)), "log of honestly appended entries cannot be merged into a fresh permissive replica under codec %s: %v", h.Codec, err)
			break
		}
		if fresh.Len() != l.Len() {
			run.Violate("C06/appended-not-mergeable", det("codec", h.Codec), wit(fmt.Sprintf("fresh<-r%d", r)), "fresh replica got %d of %d entries", fresh.Len(), l.Len())
		}
	}
	// (e') the same for entries READ BACK from storage (decoded objects, not the ones Append returned): a replica
	// rebuilt by a loader hands out entries that verify, and a fresh permissive replica can merge it
	if h.Codec != "pb" { // the legacy codec cannot read back what it writes (DESIGN 8.5)
		for r, l := range x.Logs {
			if l.Len() == 0 || ((i+r)%3 != 0 && i%2 == 0) {
				continue
			}
			loader := hx.Loaders[rng.Intn(len(hx.Loaders))]
			j.Log(map[string]any{"case": i, "codec": h.Codec, "phase": "verify-read-back", "loader": loader})
			re, err := x.W.Reload(l, loader, x.Writer[r], nil)
			if err != nil {
				run.Violate("C06/restore-error", det("codec", h.Codec, "loader", loader), wit("read back"), "restoring a log through the %s loader failed: %v", loader, err)
				continue
			}
			if re == nil {
				continue
			}
			run.Count("logs_read_back_and_verified", 1)
			for _, e := range re.Values().Slice() {
				if err := e.Verify(provider, x.W.IOv()); err != nil {
					run.Violate("C06/read-back-not-verifiable", det("codec", h.Codec, "loader", loader, "refs", len(e.GetRefs()) > 0), wit(fmt.Sprintf("r%d read back through %s", r, loader)), "an entry produced by Append and read back from storage (%d predecessors, %d references) does not verify under codec %s: %v", len(e.GetNext()), len(e.GetRefs()), h.Codec, err)
					break
				}
			}
			fresh := x.W.NewLog(0)
			if _, err := fresh.Join(re, -1); err != nil {
				run.Violate("C06/read-back-not-mergeable", det("codec", h.Codec, "loader", loader), wit(fmt.Sprintf("fresh<-r%d read back through %s", r, loader)), "a log of honestly appended entries read back from storage cannot be merged into a fresh permissive replica under codec %s: %v", h.Codec, err)
			} else if fresh.Len() != re.Len() {
				run.Violate("C06/read-back-not-mergeable", det("codec", h.Codec, "loader", loader), wit(fmt.Sprintf("fresh<-r%d read back", r)), "fresh replica got %d of %d entries", fresh.Len(), re.Len())
			}
			// ... and so is a PARTIAL log (the newest n entries, loaded with a length limit): its oldest entries point at
			// entries it does not hold - which makes none of them less mergeable
			if hd := l.Heads().Slice(); len(hd) >= 1 && l.Len() >= 3 && h.Codec != "pb" {
				n := 1 + rng.Intn(l.Len()-1)
				if part, err := x.W.LoadHash(hd[0].GetHash(), x.Writer[r], &hx.LoadOpts{Length: &n}); err == nil && part != nil && part.Len() > 0 {
					f2 := x.W.NewLog(0)
					run.Count("partial_logs_merged_into_a_fresh_replica", 1)
					if _, err := f2.Join(part, -1); err != nil {
						run.Violate("C06/read-back-not-mergeable", det("codec", h.Codec, "loader", "hash", "partial", true), wit(fmt.Sprintf("fresh<-newest %d of r%d", n, r)), "a partial log (newest %d of %d honestly appended entries) cannot be merged into a fresh permissive replica: %v", n, l.Len(), err)
					} else if f2.Len() != part.Len() {
						run.Violate("C06/read-back-not-mergeable", det("codec", h.Codec, "loader", "hash", "partial", true), wit(fmt.Sprintf("fresh<-newest %d of r%d", n, r)), "fresh replica got %d of the %d entries of a partial log", f2.Len(), part.Len())
					}
				}
			}
		}
	}
	if h.Codec != "cbor" {
		run.NonTrivial("codec/" + h.Codec + "/" + h.Shape)
	}

	// (a)(b)(c) corrupted / denied merges
	rounds := 6
	if big {
		rounds = 3
	}
	for round := 0; round < rounds; round++ {
		s := rng.Intn(h.Replicas)
		if big {
			s = 0
		}
		srcLog := x.Logs[s]
		if srcLog.Len() == 0 {
			continue
		}
		// destination: another replica, or a fresh log
		var dst *ipfslog.IPFSLog
		dstName := "fresh"
		pol := &policy{name: "allow-all"}
		switch rng.Intn(5) {
		case 1:
			w := rng.Intn(h.Writers)
			pol = &policy{name: "deny-writer", denyID: x.W.Idents[w].ID}
		case 2:
			pol = &policy{name: "deny-payload", denyPay: lastByteOdd}
		case 3:
			pol = &policy{name: "deny-nth", nth: int64(1 + rng.Intn(8))}
		case 4:
			pol = &policy{name: "inspect", inspect: true, denyPay: lastByteOdd}
		}
		mk := func(entries []iface.IPFSLogEntry, heads []iface.IPFSLogEntry) *ipfslog.IPFSLog {
			lo := x.W.LogOpts(x.W.LogID)
			lo.AccessController = pol
			if entries != nil {
				lo.Entries = entry.NewOrderedMapFromEntries(entries)
				lo.Heads = heads
			}
			l, err := ipfslog.NewLog(x.W.Store.API(), x.W.Idents[0], lo)
			if err != nil {
				panic(err)
			}
			return l
		}
		if d := rng.Intn(h.Replicas + 1); d < h.Replicas && d != s && !big {
			dl := x.Logs[d]
			dst = mk(dl.GetEntries().Slice(), dl.Heads().Slice())
			dstName = fmt.Sprintf("copy-of-r%d", d)
		} else {
			dst = mk(nil, nil)
		}
		// build the source with corruption
		srcEntries := srcLog.GetEntries().Slice()
		srcHeads := srcLog.Heads().Slice()
		isHead := map[string]bool{}
		for _, hd := range srcHeads {
			isHead[hd.GetHash().String()] = true
		}
		nCorrupt := []int{0, 1, 1, 1, 2, 3}[rng.Intn(6)]
		if nCorrupt > len(srcEntries) {
			nCorrupt = len(srcEntries)
		}
		corrupted := map[string]string{} // hash -> kind
		invalidSet := map[string]bool{}
		entries := append([]iface.IPFSLogEntry(nil), srcEntries...)
		var posClass []string
		for c := 0; c < nCorrupt; c++ {
			idx := rng.Intn(len(entries))
			switch rng.Intn(3) {
			case 0: // a head
				for k, e := range entries {
					if isHead[e.GetHash().String()] {
						idx = k
						break
					}
				}
			case 1: // a root
				for k, e := range entries {
					if len(e.GetNext()) == 0 {
						idx = k
						break
					}
				}
			}
			e := entries[idx]
			hs := e.GetHash().String()
			if _, done := corrupted[hs]; done {
				continue
			}
			kind := corruptKinds[rng.Intn(len(corruptKinds))]
			other := srcEntries[rng.Intn(len(srcEntries))]
			if other.GetHash().Equals(e.GetHash()) || (kind == "otherkey" && bytes.Equal(other.GetKey(), e.GetKey())) || (kind == "sigother" && bytes.Equal(other.GetSig(), e.GetSig())) {
				kind = "sigflip"
			}
			ce, inv := corrupt(kind, e, other, rng)
			entries[idx] = ce
			corrupted[hs] = kind
			if inv {
				invalidSet[hs] = true
			}
			pc := "interior"
			if isHead[hs] {
				pc = "head"
			} else if len(e.GetNext()) == 0 {
				pc = "root"
			}
			posClass = append(posClass, kind+"@"+pc)
		}
		if rng.Intn(8) == 0 {
			// every entry of the offered log comes without its identity record
			for k, e := range entries {
				if _, done := corrupted[e.GetHash().String()]; !done {
					ce, _ := corrupt("noidentity", e, e, rng)
					entries[k] = ce
					corrupted[e.GetHash().String()] = "noidentity"
				}
			}
			posClass = append(posClass, "noidentity@all")
		}
		var heads []iface.IPFSLogEntry
		srcMap := map[string]iface.IPFSLogEntry{}
		for _, e := range entries {
			srcMap[e.GetHash().String()] = e
			if isHead[e.GetHash().String()] {
				heads = append(heads, e)
			}
		}
		lo := x.W.LogOpts(x.W.LogID)
		lo.Entries = entry.NewOrderedMapFromEntries(entries)
		lo.Heads = heads
		src, err := ipfslog.NewLog(x.W.Store.API(), x.W.Idents[0], lo)
		if err != nil {
			panic(err)
		}
		// an identically built twin of the destination that never sees this merge
		var twin *ipfslog.IPFSLog
		if dstName == "fresh" {
			twin = mk(nil, nil)
		} else {
			twin = mk(dst.GetEntries().Slice(), dst.Heads().Slice())
		}
		before := hx.Observe(dst)
		var headHashes []string
		for _, hd := range heads {
			headHashes = append(headHashes, hd.GetHash().String())
		}
		cands := candidates(srcMap, headHashes, before.Set, dst.GetID())
		nInvalid, nDenied := 0, 0
		for _, c := range cands {
			if invalidSet[c] {
				nInvalid++
			}
			if pol.denies(srcMap[c]) {
				nDenied++
			}
		}
		nthHit := pol.nth > 0 && int(pol.nth) <= len(cands)
		expectErr := nInvalid > 0 || nDenied > 0 || nthHit
		desc := fmt.Sprintf("round %d: %s <- corrupted(r%d) corrupt=%v policy=%s candidates=%d invalid=%d denied=%d nthHit=%v", round, dstName, s, posClass, pol.name, len(cands), nInvalid, nDenied, nthHit)
		j.Log(map[string]any{"case": i, "codec": h.Codec, "phase": "corrupt-merge", "desc": desc})
		// a third of the merges carry a size bound: validation covers every candidate all the same
		size := -1
		if rng.Intn(3) == 0 && len(cands) > 0 {
			size = 1 + rng.Intn(len(cands)+2)
		}
		if size >= 0 {
			desc += fmt.Sprintf(" size=%d", size)
			run.Count("corrupted_merges_with_a_size_bound", 1)
		}
		var jerr error
		if pol.inspect {
			// a controller that looks at the log through its context: the merge must not block on the log's own lock
			ok, dead, dump := guardCall(func() { _, jerr = dst.Join(src, size) }, 60*time.Second)
			if !ok {
				if dead {
					run.Violate("C06/merge-never-returns", det("codec", h.Codec, "policy", pol.name), map[string]any{"case": i, "desc": desc, "blocked_goroutines": dump}, "a merge into a log whose access controller inspects the log entries never returns (%s)", desc)
				} else {
					run.Inconclusive("merge with an inspecting controller did not return: " + desc)
				}
				return
			}
		} else {
			_, jerr = dst.Join(src, size)
		}
		after := hx.Observe(dst)
		run.Count("merges_checked", 1)
		run.Count("candidates_total", len(cands))
		d := det("codec", h.Codec, "policy", pol.name, "kinds", fmt.Sprint(posClass))
		if h.Codec == "link" || h.Codec == "pb" {
			// the honest baseline for these codecs is decided by clause (e); the
			// corrupted-merge clauses are only meaningful where honest merges work
			if jerr != nil && !expectErr {
				run.Count("merges_rejected_nonDefaultCodec", 1)
			}
		}
		if expectErr && jerr == nil {
			run.Violate("C06/invalid-admitted", d, wit(desc), "merge returned nil although %d candidates are invalid and %d denied (%s)", nInvalid, nDenied, desc)
		}
		if jerr != nil {
			if df := obsEqual(before, after); df != "" {
				run.Violate("C06/not-atomic", d, wit(desc), "merge returned error %v but the log changed: %s (%s)", jerr, df, desc)
			}
			if !expectErr && pol.name == "allow-all" && h.Codec == "cbor" {
				run.Violate("C06/valid-rejected", d, wit(desc), "merge of valid authorised candidates failed: %v (%s)", jerr, desc)
			}
			run.Count("merges_rejected", 1)
			// a rejected merge must not make the destination trust anything: a second merge that offers one of the
			// previously acceptable candidates in a tampered form (same hash) must be refused as well
			if len(cands) >= 2 && pol.nth == 0 {
				var victim string
				for _, c := range cands {
					if !invalidSet[c] && !pol.denies(srcMap[c]) {
						victim = c
						break
					}
				}
				if victim != "" {
					ents2 := make([]iface.IPFSLogEntry, 0, len(entries))
					for _, e := range entries {
						hs := e.GetHash().String()
						switch {
						case hs == victim:
							ce, _ := corrupt("payload", e, e, rng)
							ents2 = append(ents2, ce)
						case invalidSet[hs]:
							ents2 = append(ents2, srcMapHonest(srcEntries, hs)) // the formerly invalid entries are honest this time
						default:
							ents2 = append(ents2, e)
						}
					}
					var heads2 []iface.IPFSLogEntry
					for _, e := range ents2 {
						if isHead[e.GetHash().String()] {
							heads2 = append(heads2, e)
						}
					}
					lo2 := x.W.LogOpts(x.W.LogID)
					lo2.Entries = entry.NewOrderedMapFromEntries(ents2)
					lo2.Heads = heads2
					if src2, err := ipfslog.NewLog(x.W.Store.API(), x.W.Idents[0], lo2); err == nil {
						_, j2 := dst.Join(src2, -1)
						run.Count("second_merge_after_rejected_one", 1)
						if j2 == nil {
							if got, ok := dst.Get(srcMap[victim].GetHash()); ok && hx.ContentDigest(got) != hx.ContentDigest(srcMapHonest(srcEntries, victim)) {
								run.Violate("C06/invalid-admitted", det("codec", h.Codec, "policy", pol.name, "sequence", "rejected merge, then tampered candidate"), wit(desc), "after a rejected merge a second merge admitted a tampered form of an entry that had passed validation the first time (%s)", desc)
							}
						}
					}
				}
			}
			// "observably unchanged" includes what the log does next: the next append must be exactly the
			// entry a twin that never saw the rejected merge appends (same predecessors, same clock)
			if pol.nth == 0 && round%2 == 1 {
				// ... and the next MERGE: an unrelated one-entry log merged into both must leave both in the same state (a
				// rejected merge that left a trace in an index nobody can see shows here: the log drops its own head)
				extra := x.W.NewLog((1 + round) % len(x.W.Idents))
				if _, err := extra.Append(x.W.Ctx, []byte(fmt.Sprintf("unrelated-%d-%d", i, round)), nil); err == nil {
					_, ja := dst.Join(extra, -1)
					_, jb := twin.Join(extra, -1)
					run.Count("merges_after_rejected_merge_compared_with_twin", 1)
					oa, ob := hx.Observe(dst), hx.Observe(twin)
					if (ja == nil) != (jb == nil) || !model.SameKeys(oa.Set, ob.Set) || !model.EqualAsSets(oa.Heads, ob.Heads) || !model.EqualAsSets(oa.Values, ob.Values) {
						run.Violate("C06/rejected-merge-changed-behaviour", d, wit(desc), "after a rejected merge, merging an unrelated one-entry log gave (err %v) %d entries / %d values / heads %v; on a twin that never saw the rejected merge (err %v) %d entries / %d values / heads %v (%s)",
							ja, len(oa.Set), len(oa.Values), hx.SortedShorts(oa.Heads), jb, len(ob.Set), len(ob.Values), hx.SortedShorts(ob.Heads), desc)
					}
				}
			}
			if pol.nth == 0 { // the call-counting policy would diverge between the twins
				probe := []byte(fmt.Sprintf("probe-%d-%d", i, round))
				e1, err1 := dst.Append(x.W.Ctx, probe, nil)
				e2, err2 := twin.Append(x.W.Ctx, probe, nil)
				run.Count("appends_after_rejected_merge_compared_with_twin", 1)
				if (err1 == nil) != (err2 == nil) {
					run.Violate("C06/rejected-merge-changed-behaviour", d, wit(desc), "after a rejected merge the next append returned %v, on a twin that never saw the merge %v (%s)", err1, err2, desc)
				} else if err1 == nil && (e1.GetClock().GetTime() != e2.GetClock().GetTime() || !bytes.Equal(e1.GetClock().GetID(), e2.GetClock().GetID()) ||
					!model.EqualAsSets(hx.Cids(e1.GetNext()), hx.Cids(e2.GetNext())) || !model.EqualAsSets(hx.Cids(e1.GetRefs()), hx.Cids(e2.GetRefs()))) {
					// (compared field-wise: with tied clocks the ORDER of the predecessor list may legitimately differ between the twins)
					run.Violate("C06/rejected-merge-changed-behaviour", d, wit(desc), "after a rejected merge the next append produced an entry with clock time %d and %d predecessors; a twin that never saw the merge produced clock time %d and %d predecessors (%s)",
						e1.GetClock().GetTime(), len(e1.GetNext()), e2.GetClock().GetTime(), len(e2.GetNext()), desc)
				}
			}
		} else {
			run.Count("merges_accepted", 1)
			for hs, e := range after.Set {
				if _, old := before.Set[hs]; old {
					continue
				}
				if e.LogID != dst.GetID() {
					run.Violate("C06/foreign-id-admitted", d, wit(desc), "entry %s with id %q admitted into log %q (%s)", hx.Short(hs), e.LogID, dst.GetID(), desc)
				}
				if invalidSet[hs] {
					run.Violate("C06/invalid-admitted", d, wit(desc), "corrupted entry %s (%s) admitted (%s)", hx.Short(hs), corrupted[hs], desc)
				}
				if pol.denies(srcMap[hs]) {
					run.Violate("C06/denied-admitted", d, wit(desc), "entry %s denied by the controller was admitted (%s)", hx.Short(hs), desc)
				}
			}
			// nothing may enter the observable state (heads, linearised values) without being an admitted entry
			for _, view := range [][]string{after.Heads, after.Values, after.RawHeads, after.JSONHeads} {
				for _, hs := range view {
					if _, in := after.Set[hs]; in {
						continue
					}
					kind := corrupted[hs]
					if e, ok := srcMap[hs]; ok && e.GetLogID() != dst.GetID() {
						run.Violate("C06/foreign-id-admitted", det("codec", h.Codec, "policy", pol.name, "kinds", fmt.Sprint(posClass), "via", "heads"), wit(desc), "entry %s with id %q became a head / value of log %q without being admitted as an entry (%s)", hx.Short(hs), e.GetLogID(), dst.GetID(), desc)
					} else {
						run.Violate("C06/non-entry-in-view", det("codec", h.Codec, "policy", pol.name, "kinds", fmt.Sprint(posClass)), wit(desc), "hash %s (%s) is exposed as head / value but is not an entry of the log (%s)", hx.Short(hs), kind, desc)
					}
					break
				}
			}
			// everything admitted must be a candidate
			cs := map[string]bool{}
			for _, c := range cands {
				cs[c] = true
			}
			for hs := range after.Set {
				if _, old := before.Set[hs]; !old && !cs[hs] {
					run.Violate("C06/non-candidate-admitted", d, wit(desc), "entry %s admitted but is not a candidate (%s)", hx.Short(hs), desc)
				}
			}
		}
		if expectErr && len(cands) > 0 {
			cb := len(cands)
			switch {
			case cb > 100:
				cb = 100
			case cb > 20:
				cb = 20
			case cb > 5:
				cb = 5
			}
			run.NonTrivial(fmt.Sprintf("%v/%s/%s/c%d", posClass, pol.name, h.Codec, cb))
		}
	}

	// (f) a log that offers, as a head, a tampered object under the hash of an entry the destination HOLDS:
	// nothing in it is a candidate, so whatever Join returns the destination must stay as it is and keep handing
	// out the entry it validated
	for r, l := range x.Logs {
		if l.Len() == 0 || (i+r)%2 != 0 {
			continue
		}
		lo := x.W.LogOpts(x.W.LogID)
		lo.Entries = l.GetEntries()
		lo.Heads = l.Heads().Slice()
		dst, err := ipfslog.NewLog(x.W.Store.API(), x.W.Idents[0], lo)
		if err != nil {
			panic(err)
		}
		pool := l.Heads().Slice()
		where := "head"
		if rng.Intn(3) == 0 {
			pool = l.Values().Slice()
			where = "any"
		}
		victim := pool[rng.Intn(len(pool))]
		kind := corruptKinds[rng.Intn(len(corruptKinds))]
		if kind == "sigother" || kind == "otherkey" {
			kind = "payload"
		}
		ce, _ := corrupt(kind, victim, victim, rng)
		ents := l.GetEntries()
		ents.Set(victim.GetHash().String(), ce)
		lo2 := x.W.LogOpts(x.W.LogID)
		lo2.Entries = ents
		lo2.Heads = []iface.IPFSLogEntry{ce}
		src, err := ipfslog.NewLog(x.W.Store.API(), x.W.Idents[0], lo2)
		if err != nil {
			panic(err)
		}
		desc := fmt.Sprintf("copy-of-r%d <- log whose head is a %s-tampered object under the hash of the destination's own entry %s (%s)", r, kind, hx.Short(victim.GetHash().String()), where)
		j.Log(map[string]any{"case": i, "codec": h.Codec, "phase": "held-look-alike", "desc": desc})
		before := hx.Observe(dst)
		_, jerr := dst.Join(src, -1)
		hx.OnObserve = nil // reported here with the full witness
		after := hx.Observe(dst)
		InstallObserveHook(run)
		run.Count("merges_offering_a_look_alike_of_a_held_entry", 1)
		d := det("codec", h.Codec, "kind", kind, "position", where)
		if len(after.Differ) > 0 {
			run.Violate("C06/look-alike-handed-out", d, wit(desc), "after a merge (returned %v) the log hands out a never-validated object under the hash of an entry it holds: %s (%s)", jerr, after.Differ[0], desc)
		}
		if df := obsEqual(before, after); df != "" {
			run.Violate("C06/look-alike-changed-log", d, wit(desc), "a merge offering no candidate (returned %v) changed the log: %s (%s)", jerr, df, desc)
		}
		if got, ok := dst.Get(victim.GetHash()); !ok || hx.ContentDigest(got) != hx.ContentDigest(victim) {
			run.Violate("C06/look-alike-handed-out", d, wit(desc), "Get() no longer returns the validated entry (%s)", desc)
		}
		run.NonTrivial("look-alike/" + kind + "/" + where + "/" + h.Codec)
	}

	// (f') the destination is a PARTIAL replica (the newest n entries of a log, loaded with a length limit): the entry
	// its own oldest entry points to is missing. The offered log has, exactly under that hash, a tampered object -
	// or the genuine entry, which the destination's controller denies. Being linked to by an entry the destination
	// already holds makes a candidate no less a candidate: refused (log unchanged), or at least not admitted.
	for r, l := range x.Logs {
		heads := l.Heads().Slice()
		if h.Codec == "pb" || len(heads) != 1 || l.Len() < 3 || (i+r)%2 != 1 {
			continue
		}
		n := 1 + rng.Intn(l.Len()-1)
		dst, err := x.W.LoadHash(heads[0].GetHash(), 0, &hx.LoadOpts{Length: &n})
		if err != nil || dst == nil {
			continue
		}
		var missing []iface.IPFSLogEntry
		seen := map[string]bool{}
		for _, e := range dst.GetEntries().Slice() {
			for _, c := range e.GetNext() {
				if !dst.Has(c) && !seen[c.String()] {
					seen[c.String()] = true
					if pe, ok := l.Get(c); ok && pe != nil {
						missing = append(missing, pe)
					}
				}
			}
		}
		if len(missing) == 0 {
			continue
		}
		victim := missing[rng.Intn(len(missing))]
		kind := []string{"payload", "sigflip", "nosig", "clock", "denied", "denied"}[rng.Intn(6)]
		ents := l.GetEntries()
		var ce iface.IPFSLogEntry = victim
		if kind == "denied" {
			vp := string(victim.GetPayload())
			dst.AccessController = &policy{name: "deny-one-payload", denyPay: func(p []byte) bool { return string(p) == vp }}
		} else {
			ce, _ = corrupt(kind, victim, victim, rng)
			ents.Set(victim.GetHash().String(), ce)
		}
		// the offering log is BEHIND: it ends at that entry (its head), and holds that entry's past
		lobs := hx.Observe(l)
		var pastList []iface.IPFSLogEntry
		for k := range model.Past(lobs.Set, []string{victim.GetHash().String()}) {
			if c, err := cid.Decode(k); err == nil {
				if pe, ok := ents.Get(c.String()); ok && pe != nil {
					pastList = append(pastList, pe)
				}
			}
		}
		lo2 := x.W.LogOpts(x.W.LogID)
		lo2.Entries = entry.NewOrderedMapFromEntries(pastList)
		lo2.Heads = []iface.IPFSLogEntry{ce}
		src, err := ipfslog.NewLog(x.W.Store.API(), x.W.Idents[0], lo2)
		if err != nil {
			panic(err)
		}
		desc := fmt.Sprintf("partial copy of r%d (newest %d of %d) <- r%d's log with a %s object under the hash %s that the partial copy's own entries point to", r, n, l.Len(), r, kind, hx.Short(victim.GetHash().String()))
		j.Log(map[string]any{"case": i, "codec": h.Codec, "phase": "missing-parent-look-alike", "desc": desc})
		before := hx.Observe(dst)
		_, jerr := dst.Join(src, -1)
		hx.OnObserve = nil
		after := hx.Observe(dst)
		InstallObserveHook(run)
		run.Count("merges_offering_a_bad_object_under_the_hash_of_a_missing_parent", 1)
		d := det("codec", h.Codec, "kind", kind)
		if jerr != nil {
			if df := obsEqual(before, after); df != "" {
				run.Violate("C06/refused-merge-changed-log", d, wit(desc), "a refused merge (%v) changed the log: %s (%s)", jerr, df, desc)
			}
		}
		if got, ok := dst.Get(victim.GetHash()); ok && got != nil {
			switch {
			case kind == "denied":
				run.Violate("C06/denied-entry-admitted", d, wit(desc), "the merge (returned %v) admitted an entry the destination's controller denies (%s)", jerr, desc)
			case hx.ContentDigest(got) != hx.ContentDigest(victim):
				run.Violate("C06/invalid-entry-admitted", d, wit(desc), "the merge (returned %v) admitted the %s object: the log holds it under %s (%s)", jerr, kind, hx.Short(victim.GetHash().String()), desc)
			}
		}
		run.NonTrivial("missing-parent/" + kind + "/" + h.Codec)
	}

	// (g) a validly signed NEW entry whose hash field names an entry the destination holds, filed in the offered
	// log under its true hash (reachable from a valid new head): it may be merged under its own hash or refused,
	// but the entry the destination validated earlier must stay what it is
	for r, l := range x.Logs {
		if l.Len() == 0 || (i+r)%3 != 0 || h.Codec == "pb" {
			continue
		}
		lo := x.W.LogOpts(x.W.LogID)
		lo.Entries = l.GetEntries()
		lo.Heads = l.Heads().Slice()
		dst, err := ipfslog.NewLog(x.W.Store.API(), x.W.Idents[0], lo)
		if err != nil {
			panic(err)
		}
		lo1 := x.W.LogOpts(x.W.LogID)
		lo1.Entries = l.GetEntries()
		lo1.Heads = l.Heads().Slice()
		tmp, err := ipfslog.NewLog(x.W.Store.API(), x.W.Idents[0], lo1)
		if err != nil {
			panic(err)
		}
		n1, err1 := tmp.Append(x.W.Ctx, []byte(fmt.Sprintf("%d.%d/relabel-%d-1", h.Seed, h.Idx, r)), nil)
		n2, err2 := tmp.Append(x.W.Ctx, []byte(fmt.Sprintf("%d.%d/relabel-%d-2", h.Seed, h.Idx, r)), nil)
		if err1 != nil || err2 != nil {
			continue
		}
		pool := l.Values().Slice()
		victim := pool[rng.Intn(len(pool))]
		fake := n1.Copy()
		fake.SetHash(victim.GetHash())
		ents := tmp.GetEntries()
		ents.Set(n1.GetHash().String(), fake)
		lo2 := x.W.LogOpts(x.W.LogID)
		lo2.Entries = ents
		lo2.Heads = []iface.IPFSLogEntry{n2}
		src, err := ipfslog.NewLog(x.W.Store.API(), x.W.Idents[0], lo2)
		if err != nil {
			panic(err)
		}
		desc := fmt.Sprintf("copy-of-r%d <- its own entries + 2 new valid entries, the older of which carries the hash of the destination's entry %s and is filed under its true hash", r, hx.Short(victim.GetHash().String()))
		j.Log(map[string]any{"case": i, "codec": h.Codec, "phase": "relabelled-entry", "desc": desc})
		var jerr error
		beforeG := hx.Observe(dst)
		ok, dead, dump := guardCall(func() {
			_, jerr = dst.Join(src, -1)
			_ = dst.Values() // a replaced entry can point back at the heads: the traversal must still end
		}, 60*time.Second)
		run.Count("merges_offering_a_relabelled_entry", 1)
		d := det("codec", h.Codec)
		if !ok {
			if dead {
				run.Violate("C06/merge-never-returns", d, map[string]any{"case": i, "desc": desc, "blocked_goroutines": dump}, "merge of a relabelled entry (or reading the log afterwards) never returns (%s)", desc)
			} else {
				run.Inconclusive("merge of a relabelled entry did not return: " + desc)
			}
			return
		}
		if jerr != nil {
			// refused: then nothing of the offered log may have got in (the valid head above the relabelled entry included)
			if df := obsEqual(beforeG, hx.Observe(dst)); df != "" {
				run.Violate("C06/not-atomic", det("codec", h.Codec, "kinds", "relabelled entry below a valid head"), wit(desc), "the merge was refused (%v) but the log changed: %s (%s)", jerr, df, desc)
			}
		}
		if got, ok := dst.Get(victim.GetHash()); !ok || hx.ContentDigest(got) != hx.ContentDigest(victim) {
			run.Violate("C06/held-entry-replaced", d, wit(desc), "after a merge (returned %v) Get() returns another entry under the hash of an entry the log held and had validated (%s)", jerr, desc)
		}
		run.NonTrivial("relabelled/" + h.Codec)
	}

	// (h) the offered log brings its OWN codec (a peer controls the log object it hands over): its pre-sign step
	// answers with a genuinely signed entry whenever it is shown that entry's signature. The destination must check
	// signatures with its own codec and refuse a forged payload carrying a replayed key / signature / identity
	if i%3 == 1 && len(appended) > 0 && h.Codec != "pb" {
		genuine := appended[rng.Intn(len(appended))]
		forged := genuine.Copy()
		forged.SetPayload([]byte("forged: " + string(genuine.GetPayload())))
		forged.SetHash(foreignCid(fmt.Sprintf("forged-%d-%d", run.Seed, i)))
		forged.SetNext(nil)
		forged.SetRefs(nil)
		lo := x.W.LogOpts(x.W.LogID)
		lo.IO = &replayIO{IO: x.W.IOv(), signed: genuine}
		lo.Entries = entry.NewOrderedMapFromEntries([]iface.IPFSLogEntry{forged})
		lo.Heads = []iface.IPFSLogEntry{forged}
		if src, err := ipfslog.NewLog(x.W.Store.API(), x.W.Idents[0], lo); err == nil {
			dst := x.W.NewLog(0)
			j.Log(map[string]any{"case": i, "codec": h.Codec, "phase": "peer-with-its-own-codec"})
			_, jerr := dst.Join(src, -1)
			run.Count("merges_from_a_log_with_a_hostile_codec", 1)
			if _, in := dst.Get(forged.GetHash()); in || jerr == nil {
				run.Violate("C06/invalid-admitted", det("codec", h.Codec, "kinds", "forged payload under a replayed signature, offered by a log whose codec answers the pre-sign step with the genuine entry"), wit("hostile codec"),
					"a forged entry (payload changed, key / signature / identity of a genuine entry) was merged (err=%v): the signature was not checked over the entry's own content with the destination's codec", jerr)
			}
			run.NonTrivial("hostile-codec/" + h.Codec)
		}
	}

	// (i) two replicas opened from ONE options value / one entries map, each with its own controller: what one of
	// them appends must not get into the other without passing the other's controller
	if i%3 == 2 {
		pol := &policy{name: "deny-payload", denyPay: func(p []byte) bool { return bytes.HasPrefix(p, []byte("DENY")) }}
		shared := x.W.LogOpts(x.W.LogID)
		shared.AccessController = nil
		if r0 := x.Logs[rng.Intn(h.Replicas)]; rng.Intn(2) == 0 && r0.Len() > 0 {
			shared.Entries = r0.GetEntries()
			shared.Heads = r0.Heads().Slice()
		}
		a, errA := ipfslog.NewLog(x.W.Store.API(), x.W.Idents[0], shared)
		optsB := *shared // the same Entries map object (NewLog wrote its default back into the options), another controller
		optsB.AccessController = pol
		b, errB := ipfslog.NewLog(x.W.Store.API(), x.W.Idents[0], &optsB)
		if errA == nil && errB == nil {
			j.Log(map[string]any{"case": i, "codec": h.Codec, "phase": "replicas-from-one-options-value"})
			before := hx.Observe(b)
			_, e1 := a.Append(x.W.Ctx, []byte(fmt.Sprintf("DENY-shared-%d", i)), nil)
			_, e2 := a.Append(x.W.Ctx, []byte(fmt.Sprintf("ok-shared-%d", i)), nil)
			mid := hx.Observe(b)
			_, jerr := b.Join(a, -1)
			after := hx.Observe(b)
			run.Count("replicas_opened_from_one_options_value", 1)
			if e1 == nil && e2 == nil {
				if df := obsEqual(before, mid); df != "" {
					run.Violate("C06/not-atomic", det("codec", h.Codec, "sequence", "two replicas from one options value"), wit("shared options"), "appending to a replica changed another replica opened from the same options value before any merge: %s", df)
				}
				for _, v := range after.Values {
					if e := after.Set[v]; e != nil && strings.HasPrefix(e.Payload, "DENY") {
						run.Violate("C06/denied-admitted", det("codec", h.Codec, "policy", pol.name, "sequence", "two replicas from one options value"), wit("shared options"), "an entry the controller denies is in the log after a merge (returned %v) from a replica opened from the same options value", jerr)
						break
					}
				}
				if jerr != nil {
					if df := obsEqual(mid, after); df != "" {
						run.Violate("C06/not-atomic", det("codec", h.Codec, "sequence", "two replicas from one options value"), wit("shared options"), "refused merge changed the log: %s", df)
					}
				}
			}
		}
	}

	// (b') a log restored from storage with a restrictive controller still enforces it
	for r, l := range x.Logs {
		if l.Len() == 0 || i%2 != 0 {
			continue
		}
		loader := hx.Loaders[rng.Intn(len(hx.Loaders))]
		if loader == "hash" && l.Heads().Len() != 1 {
			loader = "manifest"
		}
		if h.Codec == "pb" {
			break
		}
		pol := &policy{name: "deny-payload", denyPay: func(p []byte) bool { return bytes.HasPrefix(p, []byte("DENY")) }}
		w2 := *x.W
		lo := w2.LogOpts(w2.LogID)
		lo.AccessController = pol
		var restored *ipfslog.IPFSLog
		var err error
		j.Log(map[string]any{"case": i, "codec": h.Codec, "phase": "restored-log-policy", "loader": loader})
		switch loader {
		case "manifest":
			var mc cid.Cid
			if mc, err = l.ToMultihash(x.W.Ctx); err == nil {
				restored, err = ipfslog.NewFromMultihash(x.W.Ctx, x.W.Store.API(), x.W.Idents[x.Writer[r]], mc, lo, &ipfslog.FetchOptions{})
			}
		case "json":
			restored, err = ipfslog.NewFromJSON(x.W.Ctx, x.W.Store.API(), x.W.Idents[x.Writer[r]], l.ToJSONLog(), lo, &entry.FetchOptions{})
		case "entries":
			restored, err = ipfslog.NewFromEntry(x.W.Ctx, x.W.Store.API(), x.W.Idents[x.Writer[r]], l.Heads().Slice(), lo, &entry.FetchOptions{})
		case "hash":
			restored, err = ipfslog.NewFromEntryHash(x.W.Ctx, x.W.Store.API(), x.W.Idents[x.Writer[r]], l.Heads().Slice()[0].GetHash(), lo, &ipfslog.FetchOptions{})
		}
		if err != nil || restored == nil {
			run.Violate("C06/restore-error", det("codec", h.Codec, "loader", loader), wit("restore"), "restoring a log through the %s loader failed: %v", loader, err)
			continue
		}
		before := hx.Observe(restored)
		e, aerr := restored.Append(x.W.Ctx, []byte(fmt.Sprintf("DENY-restored-%d", i)), nil)
		d := det("codec", h.Codec, "loader", loader)
		if aerr == nil || e != nil {
			run.Violate("C06/denied-append-accepted", d, wit("restored log"), "a log restored through the %s loader with a restrictive controller accepted an append the controller denies", loader)
		} else if df := obsEqual(before, hx.Observe(restored)); df != "" {
			run.Violate("C06/denied-append-changed", d, wit("restored log"), "denied append on a restored log changed it: %s", df)
		}
		// and a merge carrying a denied entry is refused
		src := x.W.NewLog(0)
		_, _ = src.Join(l, -1)
		if _, err := src.Append(x.W.Ctx, []byte(fmt.Sprintf("DENY-merge-%d", i)), nil); err == nil {
			if _, jerr := restored.Join(src, -1); jerr == nil {
				run.Violate("C06/denied-admitted", d, wit("restored log"), "a log restored through the %s loader with a restrictive controller merged an entry the controller denies", loader)
			}
		}
		run.Count("restored_logs_with_policy_"+loader, 1)
		run.NonTrivial("restored/" + loader + "/" + h.Codec)
	}

	// (d) denied appends
	for round := 0; round < 2; round++ {
		r := rng.Intn(h.Replicas)
		src := x.Logs[r]
		pol := &policy{name: "deny-payload", denyPay: func(p []byte) bool { return bytes.HasPrefix(p, []byte("DENY")) }}
		lo := x.W.LogOpts(x.W.LogID)
		lo.AccessController = pol
		lo.Entries = entry.NewOrderedMapFromEntries(src.GetEntries().Slice())
		lo.Heads = src.Heads().Slice()
		l, err := ipfslog.NewLog(x.W.Store.API(), x.W.Idents[x.Writer[r]], lo)
		if err != nil {
			panic(err)
		}
		before := hx.Observe(l)
		j.Log(map[string]any{"case": i, "codec": h.Codec, "phase": "denied-append"})
		e, aerr := l.Append(x.W.Ctx, []byte(fmt.Sprintf("DENY-%d-%d", i, round)), nil)
		after := hx.Observe(l)
		d := det("codec", h.Codec)
		if aerr == nil || e != nil {
			run.Violate("C06/denied-append-accepted", d, wit("denied append"), "append denied by the controller returned entry=%v err=%v", e != nil, aerr)
		}
		if df := obsEqual(before, after); df != "" {
			run.Violate("C06/denied-append-changed", d, wit("denied append"), "denied append changed the log: %s", df)
		}
		// and an allowed append afterwards still dominates
		if e2, err := l.Append(x.W.Ctx, []byte(fmt.Sprintf("ok-%d-%d", i, round)), nil); err != nil {
			run.Violate("C06/allowed-append-failed", d, wit("append after denied"), "allowed append after a denied one failed: %v", err)
		} else if !model.EqualAsSets(hx.Cids(e2.GetNext()), before.Heads) {
			run.Violate("C06/denied-append-changed", d, wit("append after denied"), "append after a denied one does not name the old heads as predecessors")
		}
		run.Count("denied_appends", 1)
		run.NonTrivial(fmt.Sprintf("denied-append/%s/h%d", h.Codec, minInt(len(before.Heads), 3)))
	}
	run.Eval(1)
	if i < 2 || run.NumSamples() < 2 {
		run.Sample(histSample(h))
	}
}

func srcMapHonest(es []iface.IPFSLogEntry, hash string) iface.IPFSLogEntry {
	for _, e := range es {
		if e.GetHash().String() == hash {
			return e
		}
	}
	return nil
}

func minInt(a, b int) int {
	if a < b {
		return a
	}
	return b
}

// replayIO is the codec of a hostile peer: it reads and writes like the codec it wraps, but its pre-sign step
// answers with an entry that really was signed whenever it is shown an entry carrying that signature.
type replayIO struct {
	iface.IO
	signed iface.IPFSLogEntry
}

func (r *replayIO) PreSign(e iface.IPFSLogEntry) (iface.IPFSLogEntry, error) {
	if r.signed != nil && bytes.Equal(e.GetSig(), r.signed.GetSig()) {
		return r.signed, nil
	}
	if ps, ok := r.IO.(iface.IOPreSign); ok {
		return ps.PreSign(e)
	}
	return e, nil
}
