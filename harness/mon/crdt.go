package mon

import (
	"fmt"
	"math/rand"
	"strings"

	ipfslog "berty.tech/go-ipfs-log"

	"verifharness/evid"
	"verifharness/hx"
	"verifharness/model"
)

// totalOrder reports whether the configured ordering is a strict total order on the set.
func totalOrder(order string, s model.Set) bool {
	if order == "hash" || order == "revhash" {
		return true
	}
	return model.DistinctClocks(s)
}

// histTrack measures non-triviality of a history while it runs.
type histTrack struct {
	multiHead   bool
	mergeAdded  bool
	maxHeads    int
	finalShape  string
	statesSeen  int
	headBuckets [5]int
}

func (t *histTrack) seeObs(o *hx.Obs) {
	t.statesSeen++
	n := len(o.Heads)
	if n >= 2 {
		t.multiHead = true
	}
	if n > t.maxHeads {
		t.maxHeads = n
	}
	if n > 4 {
		n = 4
	}
	t.headBuckets[n]++
}

func (t *histTrack) nontrivial() bool { return t.multiHead && t.mergeAdded }

func obsEqual(a, b *hx.Obs) string {
	if !model.SameKeys(a.Set, b.Set) {
		return "entry sets differ"
	}
	for k, e := range a.Set {
		if b.Set[k].Digest != e.Digest {
			return "entry " + hx.Short(k) + " content differs"
		}
	}
	if !model.EqualSeq(a.Heads, b.Heads) {
		return "heads differ"
	}
	if !model.EqualAsSets(a.RawHeads, b.RawHeads) {
		return "raw heads differ"
	}
	if !model.EqualSeq(a.Values, b.Values) {
		return "values differ"
	}
	if !model.EqualSeq(a.JSONHeads, b.JSONHeads) {
		return "manifest heads differ"
	}
	if a.Len != b.Len {
		return "Len differs"
	}
	return ""
}

// obsEquivalent compares two observations of logs that should hold the same state but were built
// differently (e.g. one rebuilt by a loader): sets always, sequences only when the ordering is total.
func obsEquivalent(a, b *hx.Obs, total bool) string {
	if !model.SameKeys(a.Set, b.Set) {
		return fmt.Sprintf("entry sets differ (%d vs %d)", len(a.Set), len(b.Set))
	}
	for k, e := range a.Set {
		if b.Set[k].Digest != e.Digest {
			return "entry " + hx.Short(k) + " content differs"
		}
	}
	if !model.EqualAsSets(a.Heads, b.Heads) {
		return "heads differ"
	}
	if total && !model.EqualSeq(a.Values, b.Values) {
		return "values differ"
	}
	if total && !model.EqualSeq(a.JSONHeads, b.JSONHeads) {
		return "manifest heads differ"
	}
	if a.Len != b.Len {
		return "Len differs"
	}
	return ""
}

// ---------------------------------------------------------------- C01

type stateFn struct {
	H, V, J string
	total   bool
	where   string
}

func CheckC01(run *evid.Run) {
	nh := pick(run.Tier, 600, 6000)
	twins := pick(run.Tier, 4, 8)
	maxSteps := pick(run.Tier, 40, 80)
	run.Rule = "seeded histories (9 shapes: mixed, widefork, diamond, lopsided, ring, repeat, twins, overlap, manyheads) over 2-17 replicas and 1-4 writers (every 3rd history shares writers), default, hash-tiebreak and reverse-hash orderings; every other history also contains REFUSED operations as ordinary steps (appends denied by the replica's access controller, merges of a copy of a replica carrying one denied or mis-signed entry on top of 0-2 valid ones) and FORKS (NewLog from another replica's entries and heads), followed by normal traffic; each history executed as T replay twins whose exchange is completed in a different way (random pairs to fixpoint, star, chain, reverse chain, via temporary log, every merge twice, ring rounds, partial merges interleaved with appends); a history is non-trivial iff it reached a state with >=2 heads and had a merge that added entries; distinct = canonical digest of the final DAG shape"
	run.Assumptions = []string{"entry hashes are reproducible for equal (seed, history) so replay twins are comparable hash by hash", "the harness block store behaves like a correct IPFS DAG service"}
	opts := hx.GenOpts{MaxSteps: maxSteps, Orders: []string{"default", "hash", "hash", "revhash"}}
	parallel(nh, func(i int) {
		o2 := opts
		o2.Failures = i%2 == 1 // every other history also contains refused operations and forks
		o2.Extra = i%4 == 2    // a quarter also replaces replicas by what a loader rebuilds from their published heads
		h := hx.Gen(run.Seed, i, o2)
		table := map[string]*stateFn{}
		var tr histTrack
		for t := 0; t < twins; t++ {
			c01Twin(run, h, t, table, &tr)
		}
		run.Eval(1)
		run.Count("states_observed", tr.statesSeen)
		run.Count("state_function_entries", len(table))
		if tr.nontrivial() {
			run.NonTrivial(tr.finalShape)
			run.Count("nontrivial_histories", 1)
		}
		if h.Writers < h.Replicas {
			run.Count("shared_writer_histories", 1)
		}
		if i < 2 || run.NumSamples() < 2 {
			run.Sample(histSample(h))
		}
	})
}

func c01Twin(run *evid.Run, h *hx.History, twin int, table map[string]*stateFn, tr *histTrack) {
	x := hx.NewExec(h)
	rng := rand.New(rand.NewSource(h.Seed*31 + int64(h.Idx)*131 + int64(twin)))
	wit := func(extra string) map[string]any {
		m := histSample(h)
		m["twin"] = twin
		m["at"] = extra
		return m
	}
	observe := func(r int, where string) *hx.Obs {
		o := hx.Observe(x.Logs[r])
		tr.seeObs(o)
		keys := o.Set.Keys()
		K := model.DigestKeys(keys)
		tot := totalOrder(h.Order, o.Set)
		if o.NilEntries > 0 {
			run.Violate("C01/nil-entry", det("shape", h.Shape), wit(where), "the log hands out %d nil entries at [%s]", o.NilEntries, where)
		}
		sf := &stateFn{H: model.DigestKeys(model.SortedCopy(o.Heads)), V: model.DigestSeq(o.Values), J: model.DigestSeq(o.JSONHeads), total: tot, where: where}
		if prev, ok := table[K]; ok {
			if prev.H != sf.H {
				run.Violate("C01/state-function-heads", det("shape", h.Shape, "order", h.Order), wit(where), "same entry set (%d entries) exposed different heads at [%s] and at [%s]", len(keys), prev.where, where)
			}
			if tot && (prev.V != sf.V || prev.J != sf.J) {
				run.Violate("C01/state-function-values", det("shape", h.Shape, "order", h.Order), wit(where), "same entry set (%d entries, total order) exposed different value sequence / manifest heads at [%s] and at [%s]", len(keys), prev.where, where)
			}
		} else {
			table[K] = sf
		}
		// every way of asking for the linearised sequence gives the same one
		if !model.EqualSeq(o.SnapValues, o.Values) {
			run.Violate("C01/state-function-values", det("shape", h.Shape, "order", h.Order, "view", "ToSnapshot().Values"), wit(where), "ToSnapshot().Values %v differs from Values() %v at [%s]", hx.Shorts(o.SnapValues), hx.Shorts(o.Values), where)
		}
		// model equality of heads
		if !model.EqualAsSets(o.Heads, model.Heads(o.Set)) {
			run.Violate("C01/heads-model", det("shape", h.Shape), wit(where), "heads %v != model heads %v", hx.SortedShorts(o.Heads), hx.Shorts(model.Heads(o.Set)))
		}
		if tot {
			if want := model.Linearise(o.Set, hx.ModelCmp(h.Order)); !model.EqualSeq(o.Values, want) {
				run.Violate("C01/values-model", det("shape", h.Shape, "order", h.Order), wit(where), "values %v != model linearisation %v", hx.Shorts(o.Values), hx.Shorts(want))
			}
		}
		return o
	}
	join := func(r, s int, where string) {
		before := hx.Observe(x.Logs[r])
		src := hx.Observe(x.Logs[s])
		if _, err := x.Logs[r].Join(x.Logs[s], -1); err != nil {
			run.Violate("C01/join-error", det("shape", h.Shape, "codec", h.Codec), wit(where), "honest merge returned error: %v", err)
			return
		}
		after := observe(r, where)
		want := model.Union(before.Set, src.Set)
		if !model.SameKeys(after.Set, want) {
			run.Violate("C01/union", det("shape", h.Shape), wit(where), "after merge r%d<-r%d entries=%d, union of both=%d", r, s, len(after.Set), len(want))
		}
		if len(after.Set) > len(before.Set) {
			tr.mergeAdded = true
		}
	}
	for i, s := range h.Steps {
		where := fmt.Sprintf("twin %d step %d %s", twin, i, s)
		switch s.Op {
		case "join":
			join(s.R, s.S, where)
		case "joinself", "joinempty", "joinforeign":
			before := hx.Observe(x.Logs[s.R])
			res := x.Do(i)
			after := observe(s.R, where)
			if res.Err != nil {
				run.Violate("C01/noop-error", det("op", s.Op), wit(where), "%s returned error %v", s.Op, res.Err)
			}
			if d := obsEqual(before, after); d != "" {
				run.Violate("C01/noop-changed", det("op", s.Op), wit(where), "%s changed the log: %s", s.Op, d)
			}
		case "denyappend", "joinrejected", "joinalien", "joinimpostor", "joinmislabelled", "joinrelabelled", "joinotherid", "joinforged":
			// a refused operation must change nothing (then or later: the state-function table keeps watching)
			before := hx.Observe(x.Logs[s.R])
			res := x.Do(i)
			after := observe(s.R, where)
			countRefused(run, s)
			if res.Err != nil || s.MustNotChange() {
				if d := obsEqual(before, after); d != "" {
					run.Violate("C01/refused-op-changed", det("op", s.Op), wit(where), "%s was refused (or offered nothing new) but changed the log: %s", s.Op, d)
				}
			}
		case "fork", "setident":
			x.Do(i)
			run.Count("forks_and_identity_changes", 1)
			observe(s.R, where)
		case "reload":
			before := hx.Observe(x.Logs[s.R])
			res := x.Do(i)
			if res.Err != nil {
				run.Violate("C01/reload-error", det("loader", s.Payload), wit(where), "rebuilding a replica from its published heads failed: %v", res.Err)
			}
			after := observe(s.R, where)
			run.Count("replicas_rebuilt_by_loader", 1)
			if d := obsEquivalent(before, after, totalOrder(h.Order, before.Set)); d != "" {
				run.Violate("C01/rebuilt-replica-differs", det("loader", s.Payload, "order", h.Order), wit(where), "a replica rebuilt from its own published heads (%s loader) exposes a different state: %s", s.Payload, d)
			}
		default:
			res := x.Do(i)
			if res.Err != nil {
				run.Violate("C01/append-error", det("codec", h.Codec), wit(where), "append failed: %v", res.Err)
			}
			observe(s.R, where)
		}
	}
	// union of everything appended
	U := model.Set{}
	for r := range x.Logs {
		U = model.Union(U, hx.Observe(x.Logs[r]).Set)
	}
	R := h.Replicas
	strategy := twin % 8
	sname := []string{"random-pairs", "star", "chain", "reverse-chain", "via-temp", "twice", "ring-rounds", "partial+appends"}[strategy]
	done := func() bool {
		for r := 0; r < R; r++ {
			if x.Logs[r].Len() != len(U) {
				return false
			}
		}
		return true
	}
	switch strategy {
	case 0:
		for k := 0; k < 40*R && !done(); k++ {
			r := rng.Intn(R)
			s := rng.Intn(R - 1)
			if s >= r {
				s++
			}
			join(r, s, fmt.Sprintf("twin %d completion %s #%d r%d<-r%d", twin, sname, k, r, s))
		}
	case 1:
		c := rng.Intn(R)
		for r := 0; r < R; r++ {
			if r != c {
				join(c, r, fmt.Sprintf("twin %d completion %s in r%d<-r%d", twin, sname, c, r))
			}
		}
		for r := 0; r < R; r++ {
			if r != c {
				join(r, c, fmt.Sprintf("twin %d completion %s out r%d<-r%d", twin, sname, r, c))
			}
		}
	case 2, 3:
		idx := rng.Perm(R)
		if strategy == 3 {
			for i, j := 0, R-1; i < j; i, j = i+1, j-1 {
				idx[i], idx[j] = idx[j], idx[i]
			}
		}
		for k := 1; k < R; k++ {
			join(idx[k], idx[k-1], fmt.Sprintf("twin %d completion %s fwd", twin, sname))
		}
		for k := R - 2; k >= 0; k-- {
			join(idx[k], idx[k+1], fmt.Sprintf("twin %d completion %s back", twin, sname))
		}
	case 4:
		// grouping: merge pairs into temporaries first, then the temporaries (associativity)
		tmp := x.W.NewLog(0)
		tmp2 := x.W.NewLog(0)
		half := R / 2
		for r := 0; r < R; r++ {
			t := tmp
			if r >= half {
				t = tmp2
			}
			if _, err := t.Join(x.Logs[r], -1); err != nil {
				run.Violate("C01/join-error", det("shape", h.Shape, "codec", h.Codec), wit("via-temp"), "merge into temporary failed: %v", err)
			}
		}
		if _, err := tmp.Join(tmp2, -1); err != nil {
			run.Violate("C01/join-error", det("shape", h.Shape, "codec", h.Codec), wit("via-temp"), "merge of temporaries failed: %v", err)
		}
		x.Logs = append(x.Logs, tmp)
		for r := 0; r < R; r++ {
			join(r, R, fmt.Sprintf("twin %d completion %s r%d<-tmp", twin, sname, r))
		}
		observe(R, "temporary log")
		x.Logs = x.Logs[:R]
	case 5:
		for r := 0; r < R; r++ {
			for s := 0; s < R; s++ {
				if r != s {
					join(r, s, fmt.Sprintf("twin %d completion %s a r%d<-r%d", twin, sname, r, s))
					join(r, s, fmt.Sprintf("twin %d completion %s b r%d<-r%d", twin, sname, r, s))
				}
			}
		}
	case 6:
		for round := 0; round < R && !done(); round++ {
			for r := 0; r < R; r++ {
				join(r, (r+1)%R, fmt.Sprintf("twin %d completion %s round %d r%d", twin, sname, round, r))
			}
		}
	case 7:
		// further appends interleaved with partial merges, then complete
		for k := 0; k < 6; k++ {
			r := rng.Intn(R)
			if e, err := x.Logs[r].Append(x.W.Ctx, []byte(fmt.Sprintf("%d.%d/extra%d.%d", h.Seed, h.Idx, twin, k)), nil); err == nil {
				U[e.GetHash().String()] = hx.ToModel(e)
			}
			s := rng.Intn(R - 1)
			if s >= r {
				s++
			}
			join(s, r, fmt.Sprintf("twin %d completion %s partial r%d<-r%d", twin, sname, s, r))
		}
		for r := 1; r < R; r++ {
			join(0, r, fmt.Sprintf("twin %d completion %s in", twin, sname))
		}
		for r := 1; r < R; r++ {
			join(r, 0, fmt.Sprintf("twin %d completion %s out", twin, sname))
		}
	}
	// converged?
	var first *hx.Obs
	for r := 0; r < R; r++ {
		o := observe(r, fmt.Sprintf("twin %d final r%d (%s)", twin, r, sname))
		if !model.SameKeys(o.Set, U) {
			run.Violate("C01/not-converged", det("strategy", sname, "shape", h.Shape), wit("final"), "after completing the exchange (%s) r%d holds %d entries, union has %d", sname, r, len(o.Set), len(U))
			continue
		}
		if first == nil {
			first = o
			continue
		}
		if !model.EqualAsSets(first.Heads, o.Heads) {
			run.Violate("C01/final-heads", det("strategy", sname), wit("final"), "converged replicas expose different heads")
		}
		if totalOrder(h.Order, U) && (!model.EqualSeq(first.Values, o.Values) || !model.EqualSeq(first.JSONHeads, o.JSONHeads)) {
			run.Violate("C01/final-values", det("strategy", sname), wit("final"), "converged replicas expose different value sequences")
		}
	}
	tr.finalShape = model.ShapeDigest(U)
	run.Count("completion_"+sname, 1)
}

// ---------------------------------------------------------------- C02

func CheckC02(run *evid.Run) {
	nh := pick(run.Tier, 3000, 40000)
	enableNoise(run.Seed)
	run.Rule = "every prefix state of seeded histories (9 shapes, every other one with refused operations and forks as in C01; incl. 'overlap': merges of already-merged logs, into ancestors/descendants, partially overlapping forks, three-way merges where one side's head is interior on the other); after each step heads are recomputed by the model from GetEntries(); non-trivial iff the history reached a state with >=2 heads and a merge added entries; distinct = final DAG shape digest"
	opts := hx.GenOpts{MaxSteps: pick(run.Tier, 40, 80), Orders: []string{"default", "hash"}}
	parallel(nh, func(i int) {
		o2 := opts
		o2.Failures = i%2 == 1
		o2.Bursts = i%3 == 0
		o2.Extra = i%4 == 3 // rebuilds from storage (with reused option values in half of the histories), identity changes
		o2.Hostile = !o2.Extra
		// merges from length-limited loads: logs with gaps (an entry's predecessor is not held). Never together with rebuilds
		// from storage: a replica with a gap that is rebuilt WITHOUT a limit comes back with the gap filled in - a state that
		// no sequence of appends and unbounded merges reaches, outside this property (and C09's) quantifier
		o2.Truncated = i%5 == 4 && !o2.Extra
		o2.BigFanout = true
		h := hx.Gen(run.Seed, i, o2)
		x := hx.NewExec(h)
		var tr histTrack
		for k, s := range h.Steps {
			before := x.Logs[s.R].Len()
			res := x.Do(k)
			if s.ExpectsError() {
				countRefused(run, s)
			}
			if s.Op == "burst" {
				// every snapshot a concurrent reader took must be consistent in itself: heads = unreferenced entries of its values
				fin := hx.Observe(x.Logs[s.R])
				run.Count("concurrent_bursts", 1)
				for _, sn := range res.BurstSnaps {
					set := model.Set{}
					okAll := true
					for _, v := range sn[1] {
						e, ok := fin.Set[v]
						if !ok {
							okAll = false
							break
						}
						set[v] = e
					}
					run.Count("concurrent_snapshots_checked", 1)
					if okAll && !model.EqualAsSets(sn[0], model.Heads(set)) {
						m := histSample(h)
						m["at"] = fmt.Sprintf("step %d %s", k, s)
						run.Violate("C02/snapshot-heads", det("view", "ToSnapshot during concurrent use"), m, "a snapshot taken while the log was being appended to / merged into has heads %v but the unreferenced entries of its values are %v", hx.SortedShorts(sn[0]), hx.Shorts(model.Heads(set)))
						break
					}
				}
			}
			o := hx.Observe(x.Logs[s.R])
			tr.seeObs(o)
			if s.Op == "join" && o.Len > before {
				tr.mergeAdded = true
			}
			where := fmt.Sprintf("step %d %s err=%v", k, s, res.Err)
			c02Obs(run, h, o, where)
		}
		U := model.Set{}
		for r := range x.Logs {
			U = model.Union(U, hx.Observe(x.Logs[r]).Set)
		}
		run.Eval(1)
		run.Count("states_observed", tr.statesSeen)
		for n, c := range tr.headBuckets {
			run.Count(fmt.Sprintf("states_with_%d%s_heads", n, map[bool]string{true: "+", false: ""}[n == 4]), c)
		}
		if tr.nontrivial() {
			run.NonTrivial(model.ShapeDigest(U))
		}
		if i < 2 || run.NumSamples() < 2 {
			run.Sample(histSample(h))
		}
	})
}

func c02Obs(run *evid.Run, h *hx.History, o *hx.Obs, where string) {
	wit := func() map[string]any { m := histSample(h); m["at"] = where; return m }
	if o.NilEntries > 0 {
		run.Violate("C02/nil-entry", det("shape", h.Shape), wit(), "the log hands out %d nil entries at %s", o.NilEntries, where)
	}
	want := model.Heads(o.Set)
	if !model.EqualAsSets(o.Heads, want) {
		run.Violate("C02/heads-exact", det("shape", h.Shape), wit(), "Heads()=%v but unreferenced entries=%v at %s", hx.SortedShorts(o.Heads), hx.Shorts(want), where)
	}
	for _, hd := range o.Heads {
		if _, ok := o.Set[hd]; !ok {
			run.Violate("C02/head-not-entry", det("shape", h.Shape), wit(), "head %s is not an entry of the log at %s", hx.Short(hd), where)
		}
	}
	if len(o.Set) > 0 && len(o.Heads) == 0 {
		run.Violate("C02/empty-heads", det("shape", h.Shape), wit(), "non-empty log with no heads at %s", where)
	}
	seen := map[string]bool{}
	for _, hd := range o.Heads {
		if seen[hd] {
			run.Violate("C02/dup-head", det("shape", h.Shape), wit(), "duplicate head at %s", where)
		}
		seen[hd] = true
	}
	for name, other := range map[string][]string{"RawHeads": o.RawHeads, "ToSnapshot.Heads": o.SnapHeads, "ToJSONLog.Heads": o.JSONHeads} {
		if !model.EqualAsSets(o.Heads, other) {
			run.Violate("C02/views-disagree", det("view", name), wit(), "%s=%v disagrees with Heads()=%v at %s", name, hx.SortedShorts(other), hx.SortedShorts(o.Heads), where)
		}
	}
}

// ---------------------------------------------------------------- C03

func c03Values(run *evid.Run, order string, set model.Set, values []string, view, where string, wit func() map[string]any) {
	pos := map[string]int{}
	for i, v := range values {
		if _, dup := pos[v]; dup {
			run.Violate("C03/duplicate", det("view", view, "order", order), wit(), "%s has %s twice at %s", view, hx.Short(v), where)
			return
		}
		pos[v] = i
	}
	for k := range set {
		if _, ok := pos[k]; !ok {
			run.Violate("C03/missing", det("view", view, "order", order), wit(), "%s misses entry %s (%d of %d present) at %s", view, hx.Short(k), len(values), len(set), where)
			return
		}
	}
	if len(values) != len(set) {
		run.Violate("C03/extra", det("view", view, "order", order), wit(), "%s has %d values for %d entries at %s", view, len(values), len(set), where)
		return
	}
	for k, e := range set {
		for _, n := range e.Next {
			if pn, ok := pos[n]; ok && pn > pos[k] {
				run.Violate("C03/causal", det("view", view, "order", order), wit(), "%s places %s before its predecessor %s at %s", view, hx.Short(k), hx.Short(n), where)
				return
			}
		}
	}
	cmp := hx.ModelCmp(order)
	for i := 1; i < len(values); i++ {
		if cmp(set[values[i-1]], set[values[i]]) >= 0 {
			run.Violate("C03/unsorted", det("view", view, "order", order), wit(), "%s not strictly ascending at index %d at %s", view, i, where)
			return
		}
	}
	if want := model.Linearise(set, cmp); !model.EqualSeq(values, want) {
		run.Violate("C03/model", det("view", view, "order", order), wit(), "%s differs from model linearisation at %s", view, where)
	}
}

func toStringPayloads(l *ipfslog.IPFSLog, n int) []string {
	s := l.ToString(nil)
	if n == 0 {
		return nil // (an empty log prints nothing; a single entry with an empty payload prints one empty line)
	}
	var out []string
	for _, line := range strings.Split(s, "\n") {
		line = strings.TrimLeft(line, " ")
		line = strings.TrimPrefix(line, "└─")
		out = append(out, line)
	}
	return out
}

func CheckC03(run *evid.Run) {
	nh := pick(run.Tier, 1500, 20000)
	nshape := pick(run.Tier, 240, 3000)
	run.Rule = "every prefix state of seeded histories (every other one with refused operations and forks) under three orderings (default when (clock id,time) pairs are distinct, hash-tiebreak, harness-supplied reverse-hash tiebreak), plus shape-directed DAGs (width-k forks joined by one entry, ladders of diamonds, combs, many heads at equal clock time); values checked for duplicates, completeness, causal order, strict ascent and equality with the model linearisation, on Values(), ToSnapshot().Values and ToString; states whose ordering is not a strict total order are counted and skipped; non-trivial iff >=2 heads seen and a merge added entries; distinct = final DAG shape digest"
	opts := hx.GenOpts{MaxSteps: pick(run.Tier, 40, 80), Orders: []string{"default", "hash", "revhash"}}
	parallel(nh+nshape, func(i int) {
		var h *hx.History
		if i < nh {
			o2 := opts
			o2.Failures = i%2 == 1
			o2.Extra = i%4 == 2 // rebuilds from storage, identity changes
			o2.Hostile = !o2.Extra
			o2.Bursts = i%3 == 0    // appends || merges into the same replica: afterwards every held entry is in the view
			o2.Truncated = i%5 == 4 && !o2.Extra // merges from length-limited loads: logs with gaps; never together with unlimited rebuilds (see C02)
			h = hx.Gen(run.Seed, i, o2)
		} else {
			h = genShapeDAG(run.Seed, i-nh, run.Tier)
		}
		x := hx.NewExec(h)
		var tr histTrack
		for k, s := range h.Steps {
			before := x.Logs[s.R].Len()
			x.Do(k)
			l := x.Logs[s.R]
			o := hx.Observe(l)
			tr.seeObs(o)
			if s.Op == "join" && o.Len > before {
				tr.mergeAdded = true
			}
			if !totalOrder(h.Order, o.Set) {
				run.Count("states_skipped_not_total_order", 1)
				continue
			}
			run.Count("states_checked", 1)
			where := fmt.Sprintf("step %d %s", k, s)
			wit := func() map[string]any { m := histSample(h); m["at"] = where; return m }
			c03Values(run, h.Order, o.Set, o.Values, "Values()", where, wit)
			c03Values(run, h.Order, o.Set, o.SnapValues, "ToSnapshot().Values", where, wit)
			// ToString prints newest first: reversed payload order must be the same sequence
			ps := toStringPayloads(l, len(o.Values))
			var want []string
			for j := len(o.Values) - 1; j >= 0; j-- {
				want = append(want, o.Set[o.Values[j]].Payload)
			}
			if !model.EqualSeq(ps, want) {
				run.Violate("C03/tostring", det("order", h.Order), wit(), "ToString order differs from reversed Values() at %s", where)
			}
		}
		// a replica that was opened from a LENGTH-LIMITED load (it holds the newest entries only), is looked at, and
		// then merges an older state of the same log: its entries grow below unchanged heads, and its view must follow
		if i < nh && i%6 == 1 && h.Codec != "pb" {
			for r, l := range x.Logs {
				vs := l.Values().Slice()
				if len(vs) < 6 || l.Heads().Len() != 1 || !totalOrder(h.Order, hx.Observe(l).Set) {
					continue
				}
				n := 2 + i%3
				part, err := x.W.LoadHash(l.Heads().Slice()[0].GetHash(), x.Writer[r], &hx.LoadOpts{Length: &n})
				older, err2 := x.W.LoadHash(vs[len(vs)/2].GetHash(), x.Writer[r], &hx.LoadOpts{NoExplicit: true})
				if err != nil || err2 != nil || part == nil || older == nil {
					break
				}
				_ = part.Values() // the application looks at the partial log first
				_ = part.ToSnapshot()
				where := fmt.Sprintf("r%d opened from its newest %d entries, viewed, then merged with the state of the log at its entry #%d", r, n, len(vs)/2)
				if _, err := part.Join(older, -1); err != nil {
					break
				}
				o := hx.Observe(part)
				if !totalOrder(h.Order, o.Set) {
					// (what the two loads fetched through the store can hold entries the replica itself never held - the far
					// side of a gap - and with them a tie; the property speaks of strict total orders on the entries present)
					run.Count("limited_loads_skipped_because_the_ordering_leaves_ties", 1)
					break
				}
				run.Count("limited_loads_viewed_then_merged_with_an_older_state", 1)
				wit := func() map[string]any { m := histSample(h); m["at"] = where; return m }
				c03Values(run, h.Order, o.Set, o.Values, "Values()", where, wit)
				c03Values(run, h.Order, o.Set, o.SnapValues, "ToSnapshot().Values", where, wit)
				break
			}
		}
		U := model.Set{}
		for r := range x.Logs {
			U = model.Union(U, hx.Observe(x.Logs[r]).Set)
		}
		run.Eval(1)
		if tr.nontrivial() {
			run.NonTrivial(model.ShapeDigest(U))
		}
		run.Count("order_"+h.Order, 1)
		run.Count("shape_"+h.Shape, 1)
		if i < 1 || i == nh {
			run.Sample(histSample(h))
		}
	})
}

// genShapeDAG builds the shape-directed histories of C03.
func genShapeDAG(seed int64, idx int, tier string) *hx.History {
	rng := rand.New(rand.NewSource(seed*7777 + int64(idx)))
	h := &hx.History{Seed: seed, Idx: 1000000 + idx, Order: []string{"hash", "default", "revhash"}[idx%3], Codec: "cbor"}
	k := 0
	pay := func() string { k++; return fmt.Sprintf("%d.s%d/%d", seed, idx, k) }
	app := func(r int) { h.Steps = append(h.Steps, hx.Step{Op: "append", R: r, PC: 1, Payload: pay()}) }
	join := func(r, s int) { h.Steps = append(h.Steps, hx.Step{Op: "join", R: r, S: s}) }
	switch idx % 4 {
	case 0: // width-k fork joined by one entry
		h.Shape = "fork-k"
		kk := 2 + rng.Intn(15)
		h.Replicas = kk
		app(0)
		for r := 1; r < kk; r++ {
			join(r, 0)
		}
		for r := 0; r < kk; r++ {
			for c := 1 + rng.Intn(2); c > 0; c-- {
				app(r)
			}
		}
		for r := 1; r < kk; r++ {
			join(0, r)
		}
		app(0)
	case 1: // ladder of diamonds
		h.Shape = "ladder"
		h.Replicas = 2
		depth := 3 + rng.Intn(pick(tier, 10, 28))
		for d := 0; d < depth; d++ {
			app(0)
			app(1)
			join(0, 1)
			join(1, 0)
		}
	case 2: // comb: long chain with many short side branches
		h.Shape = "comb"
		h.Replicas = 2 + rng.Intn(4)
		n := 8 + rng.Intn(20)
		for c := 0; c < n; c++ {
			app(0)
			if rng.Intn(2) == 0 {
				r := 1 + rng.Intn(h.Replicas-1)
				join(r, 0)
				app(r)
				if rng.Intn(2) == 0 {
					join(0, r)
				}
			}
		}
		for r := 1; r < h.Replicas; r++ {
			join(0, r)
		}
	default: // many heads at equal clock time
		h.Shape = "equal-time-heads"
		h.Replicas = 3 + rng.Intn(4)
		for r := 0; r < h.Replicas; r++ {
			app(r)
		}
		for r := 1; r < h.Replicas; r++ {
			join(0, r)
		}
		app(0)
		for r := 1; r < h.Replicas; r++ {
			app(r)
		}
		for r := 1; r < h.Replicas; r++ {
			join(0, r)
		}
	}
	h.Writers = h.Replicas
	if h.Writers > 16 {
		h.Writers = 16
	}
	for r := 0; r < h.Replicas; r++ {
		h.ReplicaWriter = append(h.ReplicaWriter, r%h.Writers)
	}
	return h
}
