package mon

import (
	"fmt"
	"github.com/ipfs/go-cid"
	"math/rand"
	"strings"
	"sync"
	"time"

	ipfslog "berty.tech/go-ipfs-log"
	"berty.tech/go-ipfs-log/iface"

	"verifharness/evid"
	"verifharness/hx"
	"verifharness/model"
)

// ---------------------------------------------------------------- C13 drivers

func raceInLibrary(rep string) bool {
	// both access stacks must contain a frame of the library
	parts := strings.SplitN(rep, "Previous ", 2)
	if len(parts) != 2 {
		return strings.Contains(rep, "berty.tech/go-ipfs-log")
	}
	second := parts[1]
	if i := strings.Index(second, "\n\nGoroutine "); i > 0 {
		second = second[:i]
	}
	return strings.Contains(parts[0], "berty.tech/go-ipfs-log") && strings.Contains(second, "berty.tech/go-ipfs-log")
}

func CheckC13(run *evid.Run) {
	run.Rule = "one shared log, G in {2,4,8,16} goroutines, short histories (<=40 ops) over the mix {Append, Join(frozen valid source), Join(source with several invalid entries), Values, Heads, RawHeads, GetEntries, Get, Has, Len, ToSnapshot, ToJSONLog, ToString, Iterator, ToMultihash, SetIdentity} under three scheduling regimes: free-running stress, seeded noise (yields/sleeps) at the verif hook points, and a SINGLE-FORCED-PREEMPTION SWEEP: for every hook point p of operation kind K1 and every other kind K2, worker A is parked at p while worker B runs K2, A resumes when B returned or was seen blocked. Oracles: Go race detector (race-instrumented children; in scope = both stacks inside the library), state-based deadlock classifier, offline history checker (every successful append exactly once; return-before-call implies causal order; all appends one chain; final state = initial + appends + merged sources), porcupine linearizability of the mutator history against a sequential log model, and structural monitors on every read result (closed, duplicate-free, sorted values; heads an antichain; snapshot heads = unreferenced entries of its values; per-goroutine monotonicity). A separate race-and-deadlock-only sub-workload adds size-bounded merges. Non-trivial history = >=2 goroutines issued mutators that overlapped in time; distinct = digest of the realised hook-point interleaving"
	run.Assumptions = []string{"interleavings are sampled; the sweep is exhaustive only at hook granularity with one preemption", "reads are checked for the structural guarantees, not for linearizability (the property does not promise it)"}
	opts := ChildOpts{RaceInScope: raceInLibrary, Timeout: 20 * time.Minute,
		OnDeath: func(last map[string]any, tail, kind string) (string, map[string]any) {
			sig := "C13/process-died"
			if strings.Contains(tail, "concurrent map") {
				sig = "C13/concurrent-map-access"
			}
			return sig, det("kind", kind, "scenario", last["scenario"])
		}}
	nStress := pick(run.Tier, 640, 16000)
	nSweepSeeds := pick(run.Tier, 1, 12)
	opts.Env = []string{fmt.Sprintf("VERIF_C13_STRESS=%d", nStress), fmt.Sprintf("VERIF_C13_SWEEPS=%d", nSweepSeeds)}
	opts.Key = "C13"
	opts.Race = true
	opts.Batches = 2 * Workers()
	RunChildren(run, opts)
}

func init() { childFns["C13"] = c13Child }

func c13Child(run *evid.Run, batch, nb int, j *Journal) {
	installHook()
	nStress := envInt("VERIF_C13_STRESS", 0)
	for i := batch; i < nStress && !evid.IsSaturated(); i += nb {
		c13Stress(run, i, j)
	}
	// the sweep: (kind1, point, kind2) triples, dealt round-robin to the batches
	sweeps := envInt("VERIF_C13_SWEEPS", 1)
	n := 0
	for sw := 0; sw < sweeps; sw++ {
		for _, k1 := range c13Kinds {
			for _, p := range c13Points[k1] {
				for _, k2 := range c13Kinds {
					if n%nb == batch && !evid.IsSaturated() {
						c13Preempt(run, sw, k1, p, k2, false, j)
						if k1 == "join" || k2 == "join" {
							c13Preempt(run, sw, k1, p, k2, true, j)
						}
					}
					n++
				}
			}
		}
	}
	// bounded merges: race and deadlock only
	for i := batch; i < nStress/3 && !evid.IsSaturated(); i += nb {
		c13Bounded(run, i, j)
	}
	// bounded merges with bounds that cannot cut off an append: no append may be lost
	for i := batch; i < nStress/2 && !evid.IsSaturated(); i += nb {
		c13BoundedAppends(run, i, j)
	}
}

// guardedScene builds a scene; sequential set-up operations that never return (every library goroutine in a
// lock wait) are a deadlock, too.
func guardedScene(run *evid.Run, label string, mk func() *scene) *scene {
	var s *scene
	ok, dead, dump := guardCall(func() { s = mk() }, 60*time.Second)
	if ok {
		return s
	}
	if dead {
		run.Violate("C13/deadlock", det("regime", "sequential set-up"), map[string]any{"scenario": label, "blocked_goroutines": dump},
			"a single goroutine using the log sequentially (appends and merges while building the scenario) blocks forever: %s", label)
	} else {
		run.Inconclusive("scenario set-up did not finish: " + label)
	}
	run.Eval(1)
	return nil
}

func runWorkers(n int, fn func(g int)) <-chan struct{} {
	done := make(chan struct{})
	var wg sync.WaitGroup
	for g := 0; g < n; g++ {
		wg.Add(1)
		go func(g int) { defer wg.Done(); fn(g) }(g)
	}
	go func() { wg.Wait(); close(done) }()
	return done
}

func overlapMutators(recs []*opRec) bool {
	var ms []*opRec
	for _, r := range recs {
		switch r.Kind {
		case "append", "join", "joinbad", "setidentity":
			ms = append(ms, r)
		}
	}
	for _, a := range ms {
		for _, b := range ms {
			if a.G != b.G && a.Call < b.Ret && b.Call < a.Ret {
				return true
			}
		}
	}
	return false
}

func c13Stress(run *evid.Run, i int, j *Journal) {
	rng := rand.New(rand.NewSource(run.Seed*1618033 + int64(i)))
	G := []int{2, 4, 8, 16}[i%4]
	regime := []string{"free", "noise"}[(i/4)%2]
	total := 16 + rng.Intn(25)
	label := fmt.Sprintf("stress #%d G=%d regime=%s ops=%d", i, G, regime, total)
	j.Log(map[string]any{"scenario": label})
	s := guardedScene(run, label, func() *scene { return newScene(run.Seed, i, 2+rng.Intn(3), rng) })
	if s == nil {
		return
	}
	p := newPlan(uint64(run.Seed)*7919+uint64(i), regime == "noise", map[*ipfslog.IPFSLog]string{s.L: "L"})
	activePlan.Store(p)
	// op lists per goroutine, biased: some goroutines mutate, some read
	lists := make([][]string, G)
	seeds := make([]int64, G)
	for g := range lists {
		seeds[g] = rng.Int63()
	}
	for n := 0; n < total; n++ {
		g := rng.Intn(G)
		var k string
		switch x := rng.Intn(100); {
		case x < 30:
			k = "append"
		case x < 42:
			k = "join"
		case x < 48:
			k = "joinbad"
		case x < 52:
			k = "setidentity"
		default:
			k = c13Kinds[3+rng.Intn(len(c13Kinds)-4)]
		}
		lists[g] = append(lists[g], k)
	}
	wit := func() map[string]any {
		return map[string]any{"scenario": label, "seed": run.Seed, "ops_per_goroutine": lists, "hook_trace_tail": tail(p.traceCopy(), 80)}
	}
	done := runWorkers(G, func(g int) {
		r := rand.New(rand.NewSource(seeds[g]))
		for _, k := range lists[g] {
			s.do(run, g, k, r, false)
		}
	})
	ok, dead, dump := waitAll(done, p, 60*time.Second)
	activePlan.Store(nil)
	run.Eval(1)
	run.Count("stress_histories_"+regime, 1)
	if !ok {
		if dead {
			w := wit()
			w["blocked_goroutines"] = dump
			run.Violate("C13/deadlock", det("regime", regime), w, "concurrent operations on one log deadlocked (%s): every library goroutine is in a lock wait and nothing progresses", label)
		} else {
			run.Inconclusive("watchdog fired without a deadlock state: " + label)
		}
		return
	}
	s.offline(run, label, wit)
	tr := p.traceCopy()
	if overlapMutators(s.recs) {
		run.NonTrivial(model.DigestSeq(tr))
		run.Count("histories_with_overlapping_mutators", 1)
	}
	run.Count("hook_events", len(tr))
	if i < 2 || run.NumSamples() < 2 {
		run.Sample(map[string]any{"scenario": label, "ops_per_goroutine": lists, "hook_trace_head": head(tr, 30)})
	}
}

func tail(a []string, n int) []string {
	if len(a) > n {
		return a[len(a)-n:]
	}
	return a
}

func head(a []string, n int) []string {
	if len(a) > n {
		return a[:n]
	}
	return a
}

// c13Preempt: worker A runs k1 and is parked at point; worker B runs k2 meanwhile.
func c13Preempt(run *evid.Run, sw int, k1, point, k2 string, ahead bool, j *Journal) {
	rng := rand.New(rand.NewSource(run.Seed*2718281 + int64(sw)*1000 + int64(len(k1)*131+len(point)*17+len(k2))))
	s := guardedScene(run, fmt.Sprintf("preempt sweep=%d set-up", sw), func() *scene { return newScene(run.Seed, 900000+sw, 2, rng) })
	if s == nil {
		return
	}
	// make sure reads have something to look at and "get" knows a hash
	s.do(run, 0, "append", rng, false)
	s.do(run, 0, "values", rng, false)
	s.do(run, 1, "values", rng, false)
	if ahead {
		// the only merge source is a log that is AHEAD of L (its head names L's heads): a reader that still holds the
		// old heads must never see them next to the new one
		k := s.aheadSource("sweep", 1+sw%2)
		s.srcs, s.srcSets = s.srcs[k:], s.srcSets[k:]
	}
	label := fmt.Sprintf("preempt sweep=%d A=%s parked at %s, B=%s (merge source ahead of L: %v)", sw, k1, point, k2, ahead)
	j.Log(map[string]any{"scenario": label})
	p := newPlan(uint64(run.Seed)+uint64(sw), false, map[*ipfslog.IPFSLog]string{s.L: "L"})
	p.parkLog, p.parkPoint = s.L, point
	activePlan.Store(p)
	wit := func() map[string]any {
		return map[string]any{"scenario": label, "seed": run.Seed, "hook_trace": tail(p.traceCopy(), 60)}
	}
	aDone := make(chan struct{})
	go func() { defer close(aDone); s.do(run, 0, k1, rand.New(rand.NewSource(1)), true) }()
	realised := false
	select {
	case <-p.parked:
		realised = true
	case <-aDone:
	case <-time.After(10 * time.Second):
	}
	bDone := make(chan struct{})
	bBlocked := false
	if realised {
		go func() { defer close(bDone); s.do(run, 1, k2, rand.New(rand.NewSource(2)), true) }()
		select {
		case <-bDone:
		case <-time.After(300 * time.Millisecond): // B is taken to be blocked behind A; only decides WHEN A resumes (on a loaded machine 25 ms cut runnable Bs short)
			bBlocked = true
		}
		close(p.release)
	} else {
		close(bDone)
		close(p.release)
	}
	all := make(chan struct{})
	go func() { <-aDone; <-bDone; close(all) }()
	ok, dead, dump := waitAll(all, p, 60*time.Second)
	activePlan.Store(nil)
	run.Eval(1)
	if !realised {
		run.Count("sweep_pairs_not_realised", 1)
		return
	}
	run.Count("sweep_pairs_realised", 1)
	if bBlocked {
		run.Count("sweep_pairs_B_blocked_until_A_resumed", 1)
	} else {
		run.Count("sweep_pairs_B_completed_while_A_parked", 1)
	}
	if !ok {
		if dead {
			w := wit()
			w["blocked_goroutines"] = dump
			run.Violate("C13/deadlock", det("a", k1, "point", point, "b", k2), w, "deadlock: %s", label)
		} else {
			run.Inconclusive("watchdog fired without a deadlock state: " + label)
		}
		return
	}
	s.offline(run, label, wit)
	run.NonTrivial(fmt.Sprintf("sweep/%s/%s/%s", k1, point, k2))
}

// c13Bounded: size-bounded merges discard entries, so only race and deadlock oracles apply.
func c13Bounded(run *evid.Run, i int, j *Journal) {
	rng := rand.New(rand.NewSource(run.Seed*3141592 + int64(i)))
	label := fmt.Sprintf("bounded-merge #%d", i)
	s := guardedScene(run, label, func() *scene { return newScene(run.Seed, 500000+i, 3, rng) })
	if s == nil {
		return
	}
	j.Log(map[string]any{"scenario": label})
	p := newPlan(uint64(run.Seed)+uint64(i), i%2 == 0, map[*ipfslog.IPFSLog]string{s.L: "L"})
	activePlan.Store(p)
	done := runWorkers(4, func(g int) {
		r := rand.New(rand.NewSource(int64(i*10 + g)))
		for n := 0; n < 12; n++ {
			switch (g + n*(1+i%2)) % 4 { // even cases: every goroutine cycles through all kinds; odd cases: one kind per goroutine
			case 0:
				_, _ = s.L.Join(s.srcs[r.Intn(len(s.srcs))], r.Intn(6))
			case 1:
				_ = s.L.Len()
				_ = s.L.Values()
			case 2:
				_, _ = s.L.Append(s.w.Ctx, []byte(fmt.Sprintf("b-%d-%d", g, n)), nil)
			default:
				_ = s.L.Heads()
				_ = s.L.GetEntries()
				_ = s.L.ToSnapshot()
				_ = s.L.ToJSONLog()
				_, _ = s.L.ToMultihash(s.w.Ctx)
				ch := make(chan iface.IPFSLogEntry, 4096)
				_ = s.L.Iterator(&iface.IteratorOptions{}, ch)
				// bounds at the edge of what a trimmed log still holds (its oldest entry names predecessors that are gone)
				if vs := s.L.Values().Slice(); len(vs) > 0 && vs[0] != nil {
					for _, o := range []*iface.IteratorOptions{{LT: []cid.Cid{vs[0].GetHash()}}, {LTE: []cid.Cid{vs[0].GetHash()}}, {GT: vs[0].GetHash()}, {LT: []cid.Cid{vs[len(vs)-1].GetHash()}, Amount: intp(2)}} {
						_ = s.L.Iterator(o, make(chan iface.IPFSLogEntry, 4096))
					}
				}
				for _, e := range s.L.Values().Slice() {
					if e != nil {
						_, _ = s.L.Get(e.GetHash())
						_ = s.L.Has(e.GetHash())
						break
					}
				}
			}
		}
	})
	ok, dead, dump := waitAll(done, p, 60*time.Second)
	activePlan.Store(nil)
	run.Eval(1)
	run.Count("bounded_merge_histories", 1)
	if !ok && dead {
		run.Violate("C13/deadlock", det("regime", "bounded"), map[string]any{"scenario": label, "blocked_goroutines": dump}, "deadlock in %s", label)
	} else if !ok {
		run.Inconclusive("watchdog fired without a deadlock state: " + label)
	}
}

var _ = hx.Short

func intp(n int) *int { return &n }

// c13BoundedAppends: appends and size-bounded merges of frozen sources on one shared log, with bounds that are
// never smaller than everything the log can hold in the run - the merges take the size-bounded code path
// (linearise, rebuild index and heads from the window) but can never legitimately cut anything off: after the run
// every successful append must be in the log, exactly once. (A merge that installs a stale window loses one.)
func c13BoundedAppends(run *evid.Run, i int, j *Journal) {
	rng := rand.New(rand.NewSource(run.Seed*2654435 + int64(i)))
	label := fmt.Sprintf("bounded merges that cannot cut off an append #%d", i)
	s := guardedScene(run, label, func() *scene { return newScene(run.Seed, 700000+i, 3, rng) })
	if s == nil {
		return
	}
	j.Log(map[string]any{"scenario": label})
	const workers, perWorker = 3, 5
	// bounds: never below everything the log can ever hold in this run (initial entries, all sources, all appends)
	everything := len(s.initSet) + workers*perWorker
	for _, ss := range s.srcSets {
		everything += len(ss)
	}
	var mu sync.Mutex
	var appended []*model.E
	var trace []string
	p := newPlan(uint64(run.Seed)*77+uint64(i), i%3 != 0, map[*ipfslog.IPFSLog]string{s.L: "L"})
	activePlan.Store(p)
	done := runWorkers(workers, func(g int) {
		r := rand.New(rand.NewSource(int64(i*31 + g)))
		for n := 0; n < perWorker; n++ {
			if r.Intn(2) == 0 {
				e, err := s.L.Append(s.w.Ctx, []byte(fmt.Sprintf("ba-%d-%d-%d", i, g, n)), nil)
				mu.Lock()
				if err != nil {
					trace = append(trace, fmt.Sprintf("g%d append FAILED %v", g, err))
				} else {
					m := hx.ToModel(e)
					appended = append(appended, m)
					trace = append(trace, fmt.Sprintf("g%d append -> %s t=%d", g, hx.Short(m.Hash), m.Time))
				}
				mu.Unlock()
			} else {
				k, size := r.Intn(len(s.srcs)), everything+r.Intn(6)
				_, err := s.L.Join(s.srcs[k], size)
				mu.Lock()
				trace = append(trace, fmt.Sprintf("g%d Join(src%d, %d) err=%v", g, k, size, err))
				mu.Unlock()
			}
		}
	})
	ok, dead, dump := waitAll(done, p, 60*time.Second)
	activePlan.Store(nil)
	run.Eval(1)
	run.Count("bounded_merge_histories_with_surviving_appends", 1)
	wit := func() map[string]any {
		return map[string]any{"scenario": label, "seed": run.Seed, "completed_ops_in_completion_order": trace, "hook_trace_tail": tail(p.traceCopy(), 60)}
	}
	if !ok {
		if dead {
			w := wit()
			w["blocked_goroutines"] = dump
			run.Violate("C13/deadlock", det("regime", "bounded-appends"), w, "deadlock in %s", label)
		} else {
			run.Inconclusive("watchdog fired without a deadlock state: " + label)
		}
		return
	}
	fin := hx.Observe(s.L)
	cnt := map[string]int{}
	for _, v := range fin.Values {
		cnt[v]++
	}
	for _, a := range appended {
		if _, held := fin.Set[a.Hash]; !held || cnt[a.Hash] != 1 {
			run.Violate("C13/append-not-exactly-once", det("regime", "bounded merges with bounds above everything the log can hold", "count", cnt[a.Hash]), wit(),
				"an append that returned %s (clock time %d) is %d times in the values afterwards (held: %v) although every merge of the run had a bound larger than everything the log could hold", hx.Short(a.Hash), a.Time, cnt[a.Hash], held)
			return
		}
	}
	run.NonTrivial("bounded-appends/" + model.DigestSeq(p.traceCopy()))
}
