package mon

import (
	"bytes"
	"encoding/base64"
	"encoding/hex"
	"fmt"
	"math/rand"

	ipfslog "berty.tech/go-ipfs-log"
	"berty.tech/go-ipfs-log/entry"
	"berty.tech/go-ipfs-log/iface"
	"github.com/ipfs/go-cid"
	"github.com/multiformats/go-multibase"

	"verifharness/evid"
	"verifharness/hx"
	"verifharness/store"
)

// forms returns the byte patterns that would reveal a link inside a block.
func forms(c cid.Cid) map[string][]byte {
	b58, _ := multibase.Encode(multibase.Base58BTC, c.Bytes())
	m := map[string][]byte{
		"binary cid":       c.Bytes(),
		"multihash":        []byte(c.Hash()),
		"base32 text":      []byte(c.String()),
		"base58btc text":   []byte(b58),
		"hex text":         []byte(hex.EncodeToString(c.Bytes())),
		"base64 text":      []byte(base64.StdEncoding.EncodeToString(c.Bytes())),
		"base64 text (00)": []byte(base64.StdEncoding.EncodeToString(append([]byte{0}, c.Bytes()...))),
	}
	if c.Version() == 1 {
		v0ish, _ := multibase.Encode(multibase.Base58BTC, []byte(c.Hash()))
		m["base58 multihash"] = []byte(v0ish[1:])
	}
	return m
}

func CheckC18(run *evid.Run) {
	nh := pick(run.Tier, 800, 12000)
	run.Rule = "seeded histories written with a link key (0-16 predecessors, 0-7 references, payload classes of C07, 2 writer keys, both built from one reused scratch buffer that is wiped afterwards); for every appended entry with >=1 link the raw stored block is searched for each link in 8 encodings (binary CID, bare multihash, base32, base58btc, base58 of the multihash, hex, two base64 framings) and its decoded IPLD node must expose no Links(); three independent readers decode the block: same key (must recover identical next/refs in order, Verify must pass, the whole log must load from its heads and merge into a fresh replica), no key and a different key (must obtain no links; an error is fine). Non-trivial = entry with >=1 link; distinct = (#next, #refs, payload class, writer key)"
	parallel(nh, func(i int) {
		rng := rand.New(rand.NewSource(run.Seed*6700417 + int64(i)))
		var h *hx.History
		if i%3 == 0 {
			h = genShapeDAG(run.Seed, i, run.Tier)
		} else {
			h = hx.Gen(run.Seed, i, hx.GenOpts{MaxSteps: 30, Orders: []string{"hash", "default"}, Shapes: []string{"widefork", "lopsided", "mixed", "diamond", "overlap"}})
		}
		wkey := []string{"link", "link2"}[i%2]
		rdOther := []string{"link2", "link"}[i%2]
		h.Codec = wkey
		class := map[string]string{}
		for k := range h.Steps {
			if h.Steps[k].Op == "append" {
				c := payloadClasses[rng.Intn(len(payloadClasses))]
				if c == "big" && rng.Intn(6) != 0 {
					c = "utf8"
				}
				h.Steps[k].Payload = string(classPayload(c, h.Steps[k].Payload, rng))
				class[h.Steps[k].Payload] = c
				if rng.Intn(2) == 0 {
					h.Steps[k].PC = 64
				}
			}
		}
		x := hx.NewExec(h)
		// record raw bytes at Add time
		rawAt := map[string][]byte{}
		x.W.Store.OnAdd = func(c cid.Cid, raw []byte, _ func(cid.Cid) bool) { rawAt[c.KeyString()] = append([]byte(nil), raw...) }
		var appended []*entry.Entry
		for k, s := range h.Steps {
			res := x.Do(k)
			if res.Err != nil {
				run.Violate("C18/op-error", det("op", s.Op), histSample(h), "honest %s failed with a link key: %v", s.Op, res.Err)
			}
			if s.Op == "append" && res.Err == nil {
				appended = append(appended, res.Entry.(*entry.Entry))
			}
		}
		provider := x.W.Idents[0].Provider
		same := hx.IO(wkey) // a fresh codec instance holding the same key
		none := hx.IO("cbor")
		other := hx.IO(rdOther)
		for _, e := range appended {
			links := append(append([]cid.Cid(nil), e.Next...), e.Refs...)
			if len(links) == 0 {
				run.Count("entries_without_links", 1)
				continue
			}
			run.Count("entries_with_links", 1)
			cl := class[string(e.Payload)]
			wit := func() map[string]any {
				return map[string]any{"history": fmt.Sprintf("seed=%d idx=%d shape=%s", h.Seed, h.Idx, h.Shape), "entry": e.Hash.String(), "next": len(e.Next), "refs": len(e.Refs), "payload_class": cl, "writer_key": wkey}
			}
			raw, ok := rawAt[e.Hash.KeyString()]
			if !ok {
				run.Violate("C18/block-not-written", det(), wit(), "appended entry's block never reached the store")
				continue
			}
			for _, l := range links {
				for name, pat := range forms(l) {
					run.Count("pattern_searches", 1)
					if bytes.Contains(raw, pat) {
						run.Violate("C18/link-in-clear", det("form", name), wit(), "stored block of %s contains link %s as %s", hx.Short(e.Hash.String()), hx.Short(l.String()), name)
					}
				}
			}
			node, err := store.Decode(e.Hash, raw)
			if err != nil {
				run.Violate("C18/block-undecodable", det(), wit(), "stored block does not decode as an IPLD node: %v", err)
				continue
			}
			if n := len(node.Links()); n != 0 {
				run.Violate("C18/traversable-links", det(), wit(), "stored block exposes %d traversable links", n)
			}
			// same key
			if d, err := same.DecodeRawEntry(node, e.Hash, provider); err != nil {
				run.Violate("C18/same-key-decode", det(), wit(), "reader with the same key cannot decode: %v", err)
			} else {
				if !model_eqCids(d.GetNext(), e.Next) || !model_eqCids(d.GetRefs(), e.Refs) {
					run.Violate("C18/same-key-links-differ", det(), wit(), "reader with the same key recovered next=%d refs=%d, written next=%d refs=%d (or different order)", len(d.GetNext()), len(d.GetRefs()), len(e.Next), len(e.Refs))
				}
				if f := entryFieldsDiff(e, d, true); f != "" {
					run.Violate("C18/same-key-field-differs", det("field", f), wit(), "reader with the same key decoded a different %s", f)
				}
				if err := d.Verify(provider, same); err != nil {
					run.Violate("C18/same-key-verify", det(), wit(), "entry decoded with the same key does not verify: %v", err)
				}
			}
			// no key / other key
			for name, rio := range map[string]iface.IO{"no-key": none, "other-key": other} {
				d, err := rio.DecodeRawEntry(node, e.Hash, provider)
				if err != nil {
					run.Count("reader_"+name+"_error", 1)
					continue
				}
				run.Count("reader_"+name+"_decoded", 1)
				if len(d.GetNext()) != 0 || len(d.GetRefs()) != 0 {
					run.Violate("C18/foreign-reader-got-links", det("reader", name), wit(), "reader with %s obtained %d links", name, len(d.GetNext())+len(d.GetRefs()))
				}
			}
			run.NonTrivial(fmt.Sprintf("n%d/r%d/%s/%s", minInt(len(e.Next), 9), len(e.Refs), cl, wkey))
			if len(links) > 2 && i < 3 {
				run.Sample(wit())
			}
		}
		// same-key reader loads each replica from its heads and merges it into a fresh log
		for r, l := range x.Logs {
			if l.Len() == 0 {
				continue
			}
			w2 := *x.W
			mh, err := l.ToMultihash(x.W.Ctx)
			if err != nil {
				run.Violate("C18/publish", det(), histSample(h), "ToMultihash failed: %v", err)
				continue
			}
			lo := w2.LogOpts(w2.LogID)
			lo.IO = same
			loaded, err := ipfslog.NewFromMultihash(x.W.Ctx, x.W.Store.API(), x.W.Idents[0], mh, lo, &ipfslog.FetchOptions{})
			if err != nil || loaded.Len() != l.Len() {
				n := -1
				if loaded != nil {
					n = loaded.Len()
				}
				run.Violate("C18/same-key-load", det(), histSample(h), "same-key reader loaded %d of %d entries of r%d (err %v)", n, l.Len(), r, err)
				continue
			}
			lo2 := w2.LogOpts(w2.LogID)
			lo2.IO = same
			fresh, _ := ipfslog.NewLog(x.W.Store.API(), x.W.Idents[0], lo2)
			if _, err := fresh.Join(loaded, -1); err != nil || fresh.Len() != l.Len() {
				run.Violate("C18/same-key-merge", det(), histSample(h), "same-key reader cannot merge the loaded log of r%d: err=%v, %d of %d entries", r, err, fresh.Len(), l.Len())
			}
			run.Count("logs_loaded_and_merged_with_same_key", 1)
			// a reader without the key gets only the heads
			lo3 := w2.LogOpts(w2.LogID)
			lo3.IO = none
			if nk, err := ipfslog.NewFromMultihash(x.W.Ctx, x.W.Store.API(), x.W.Idents[0], mh, lo3, &ipfslog.FetchOptions{}); err == nil {
				if nk.Len() > len(l.Heads().Slice()) {
					run.Violate("C18/no-key-traversal", det(), histSample(h), "reader without the key traversed beyond the heads: %d entries, %d heads", nk.Len(), l.Heads().Len())
				}
			}
		}
		run.Eval(1)
	})
}
