package mon

import (
	"bytes"
	"encoding/base64"
	"encoding/hex"
	"fmt"
	"math/rand"
	"sync"

	ipfslog "berty.tech/go-ipfs-log"
	"berty.tech/go-ipfs-log/enc"
	"berty.tech/go-ipfs-log/entry"
	"berty.tech/go-ipfs-log/iface"
	"berty.tech/go-ipfs-log/io/cbor"
	"github.com/ipfs/go-cid"
	cbornode "github.com/ipfs/go-ipld-cbor"
	"github.com/multiformats/go-multibase"

	"verifharness/evid"
	"verifharness/hx"
	"verifharness/store"
)

// forms returns the byte patterns that would reveal a link inside a block.
func forms(c cid.Cid) map[string][]byte {
	b58, _ := multibase.Encode(multibase.Base58BTC, c.Bytes())
	m := map[string][]byte{
		"binary cid":       c.Bytes(),
		"multihash":        []byte(c.Hash()),
		"base32 text":      []byte(c.String()),
		"base58btc text":   []byte(b58),
		"hex text":         []byte(hex.EncodeToString(c.Bytes())),
		"base64 text":      []byte(base64.StdEncoding.EncodeToString(c.Bytes())),
		"base64 text (00)": []byte(base64.StdEncoding.EncodeToString(append([]byte{0}, c.Bytes()...))),
	}
	if c.Version() == 1 {
		v0ish, _ := multibase.Encode(multibase.Base58BTC, []byte(c.Hash()))
		m["base58 multihash"] = []byte(v0ish[1:])
	}
	return m
}

func CheckC18(run *evid.Run) {
	nh := pick(run.Tier, 800, 12000)
	run.Rule = "seeded histories written with a link key (0-16 predecessors, 0-7 references, payload classes of C07, 2 writer keys, both built from one reused scratch buffer that is wiped afterwards); for every appended entry with >=1 link the raw stored block is searched for each link in 8 encodings (binary CID, bare multihash, base32, base58btc, base58 of the multihash, hex, two base64 framings) and its decoded IPLD node must expose no Links(); three independent readers decode the block: same key (must recover identical next/refs in order, Verify must pass, the whole log must load from its heads and merge into a fresh replica), no key and a different key (must obtain no links; an error is fine). Non-trivial = entry with >=1 link; distinct = (#next, #refs, payload class, writer key)"
	parallel(nh, func(i int) {
		rng := rand.New(rand.NewSource(run.Seed*6700417 + int64(i)))
		var h *hx.History
		if i%3 == 0 {
			h = genShapeDAG(run.Seed, i, run.Tier)
		} else {
			h = hx.Gen(run.Seed, i, hx.GenOpts{MaxSteps: 30, Orders: []string{"hash", "default"}, Shapes: []string{"widefork", "lopsided", "mixed", "diamond", "overlap"}})
		}
		wkey := []string{"link", "link2"}[i%2]
		rdOther := []string{"link2", "link"}[i%2]
		h.Codec = wkey
		class := map[string]string{}
		for k := range h.Steps {
			if h.Steps[k].Op == "append" {
				c := payloadClasses[rng.Intn(len(payloadClasses))]
				if c == "big" && rng.Intn(6) != 0 {
					c = "utf8"
				}
				h.Steps[k].Payload = string(classPayload(c, h.Steps[k].Payload, rng))
				class[h.Steps[k].Payload] = c
				if rng.Intn(2) == 0 {
					h.Steps[k].PC = 64
				}
			}
		}
		x := hx.NewExec(h)
		// record raw bytes at Add time
		rawAt := map[string][]byte{}
		var allAdds []cid.Cid
		x.W.Store.OnAdd = func(c cid.Cid, raw []byte, _ func(cid.Cid) bool) {
			if _, seen := rawAt[c.KeyString()]; !seen {
				allAdds = append(allAdds, c)
			}
			rawAt[c.KeyString()] = append([]byte(nil), raw...)
		}
		x.W.ReuseOptions = true // loaders are called with option values the caller used before (for a log of another codec)
		var appended []*entry.Entry
		for k, s := range h.Steps {
			res := x.Do(k)
			if res.Err != nil {
				run.Violate("C18/op-error", det("op", s.Op), histSample(h), "honest %s failed with a link key: %v", s.Op, res.Err)
			}
			if s.Op == "append" && res.Err == nil {
				appended = append(appended, res.Entry.(*entry.Entry))
			}
		}
		// hand-built entries: references without predecessors, predecessors without references, both
		for k, shape := range [][2]int{{0, 1 + rng.Intn(4)}, {1 + rng.Intn(3), 0}, {1, 1}, {0, 7}} {
			if len(appended) == 0 || rng.Intn(2) == 0 {
				continue
			}
			var nx, rf []cid.Cid
			for q := 0; q < shape[0]; q++ {
				nx = append(nx, appended[rng.Intn(len(appended))].Hash)
			}
			for q := 0; q < shape[1]; q++ {
				rf = append(rf, appended[rng.Intn(len(appended))].Hash)
			}
			pl := fmt.Sprintf("%d.%d/hand%d", h.Seed, h.Idx, k)
			ne, err := entry.CreateEntryWithIO(x.W.Ctx, x.W.Store.API(), x.W.Idents[0], &entry.Entry{LogID: x.W.LogID, Payload: []byte(pl), Next: nx, Refs: rf}, nil, x.W.IOv())
			if err != nil {
				run.Violate("C18/op-error", det("op", "create"), histSample(h), "creating an entry with %d predecessors and %d references failed with a link key: %v", shape[0], shape[1], err)
				continue
			}
			class[pl] = "ascii"
			appended = append(appended, ne.(*entry.Entry))
			run.Count(fmt.Sprintf("hand_built_next%d_refs%s", minInt(shape[0], 1), map[bool]string{true: "1+", false: "0"}[shape[1] > 0]), 1)
		}
		// ... and entries whose links are OLD-STYLE identifiers (CIDv0, what the legacy format of this very library wrote):
		// a log started long ago and continued with a link key. The same-key reader must get back the identifiers that
		// were sealed, in the form they had
		if len(appended) >= 2 && i%2 == 0 {
			a, b := appended[rng.Intn(len(appended))], appended[rng.Intn(len(appended))]
			nx := []cid.Cid{cid.NewCidV0(a.Hash.Hash()), b.Hash}
			rf := []cid.Cid{cid.NewCidV0(b.Hash.Hash())}
			if rng.Intn(2) == 0 {
				nx, rf = rf, nx
			}
			pl := fmt.Sprintf("%d.%d/hand-v0", h.Seed, h.Idx)
			ne, err := entry.CreateEntryWithIO(x.W.Ctx, x.W.Store.API(), x.W.Idents[0], &entry.Entry{LogID: x.W.LogID, Payload: []byte(pl), Next: nx, Refs: rf}, nil, x.W.IOv())
			if err != nil {
				run.Violate("C18/op-error", det("op", "create"), histSample(h), "creating an entry with CIDv0 links failed with a link key: %v", err)
			} else {
				class[pl] = "ascii"
				appended = append(appended, ne.(*entry.Entry))
				run.Count("hand_built_with_cidv0_links", 1)
			}
		}
		// a replica restored from storage with the keyed codec keeps writing encrypted links
		for r, l := range x.Logs {
			if l.Len() == 0 || rng.Intn(2) == 0 {
				continue
			}
			loader := hx.Loaders[rng.Intn(len(hx.Loaders))]
			restored, err := x.W.Reload(l, loader, x.Writer[r], nil)
			if err != nil || restored == nil {
				continue
			}
			for q := 0; q < 2; q++ {
				pl := fmt.Sprintf("%d.%d/restored%d.%d", h.Seed, h.Idx, r, q)
				ne, err := restored.Append(x.W.Ctx, []byte(pl), &iface.AppendOptions{PointerCount: 8})
				if err != nil {
					run.Violate("C18/op-error", det("op", "append-after-restore", "loader", loader), histSample(h), "append on a log restored through the %s loader failed: %v", loader, err)
					break
				}
				class[pl] = "ascii"
				appended = append(appended, ne.(*entry.Entry))
				run.Count("appended_after_restore_"+loader, 1)
			}
			break
		}
		// the same entries written once more as "pre-signed" blocks (no signature yet): still sealed
		for k, e := range appended {
			if k%5 == 0 && len(e.Next)+len(e.Refs) > 0 {
				if _, err := entry.ToMultihashWithIO(x.W.Ctx, e, x.W.Store.API(), &iface.CreateEntryOptions{PreSigned: true}, x.W.IOv()); err == nil {
					run.Count("pre_signed_writes", 1)
				}
			}
		}
		provider := x.W.Idents[0].Provider
		same := hx.IO(wkey) // a fresh codec instance holding the same key
		none := hx.IO("cbor")
		other := hx.IO(rdOther)
		neighboursDone := i%4 != 0
		for _, e := range appended {
			links := append(append([]cid.Cid(nil), e.Next...), e.Refs...)
			if len(links) == 0 {
				run.Count("entries_without_links", 1)
				continue
			}
			run.Count("entries_with_links", 1)
			cl := class[string(e.Payload)]
			wit := func() map[string]any {
				return map[string]any{"history": fmt.Sprintf("seed=%d idx=%d shape=%s", h.Seed, h.Idx, h.Shape), "entry": e.Hash.String(), "next": len(e.Next), "refs": len(e.Refs), "payload_class": cl, "writer_key": wkey}
			}
			raw, ok := rawAt[e.Hash.KeyString()]
			if !ok {
				run.Violate("C18/block-not-written", det(), wit(), "appended entry's block never reached the store")
				continue
			}
			for _, l := range links {
				for name, pat := range forms(l) {
					run.Count("pattern_searches", 1)
					if bytes.Contains(raw, pat) {
						run.Violate("C18/link-in-clear", det("form", name), wit(), "stored block of %s contains link %s as %s", hx.Short(e.Hash.String()), hx.Short(l.String()), name)
					}
				}
			}
			node, err := store.Decode(e.Hash, raw)
			if err != nil {
				run.Violate("C18/block-undecodable", det(), wit(), "stored block does not decode as an IPLD node: %v", err)
				continue
			}
			if n := len(node.Links()); n != 0 {
				run.Violate("C18/traversable-links", det(), wit(), "stored block exposes %d traversable links", n)
			}
			// same key
			if d, err := same.DecodeRawEntry(node, e.Hash, provider); err != nil {
				run.Violate("C18/same-key-decode", det(), wit(), "reader with the same key cannot decode: %v", err)
			} else {
				if !model_eqCids(d.GetNext(), e.Next) || !model_eqCids(d.GetRefs(), e.Refs) {
					run.Violate("C18/same-key-links-differ", det(), wit(), "reader with the same key recovered next=%d refs=%d, written next=%d refs=%d (or different order)", len(d.GetNext()), len(d.GetRefs()), len(e.Next), len(e.Refs))
				}
				if f := entryFieldsDiff(e, d, true); f != "" {
					run.Violate("C18/same-key-field-differs", det("field", f), wit(), "reader with the same key decoded a different %s", f)
				}
				if err := d.Verify(provider, same); err != nil {
					run.Violate("C18/same-key-verify", det(), wit(), "entry decoded with the same key does not verify: %v", err)
				}
			}
			// an entry is stored AGAIN (re-hashed, re-pinned, copied to another store): the writer's in-memory object through
			// the keyed codec and through a key-less one, and the object a same-key reader decoded through the keyed codec.
			// Whatever block that produces must hide the links like the original
			{
				type restore struct {
					what string
					obj  iface.IPFSLogEntry
					io   iface.IO
				}
				rs := []restore{{"the writer's object through the keyed codec", e, same}, {"the writer's object through a key-less codec", e, none}}
				if dd, err := same.DecodeRawEntry(node, e.Hash, provider); err == nil {
					rs = append(rs, restore{"the object a same-key reader decoded, through the keyed codec", dd, same})
					rs = append(rs, restore{"a Copy() of the object a same-key reader decoded, through the keyed codec", dd.Copy(), same})
				}
				rs = append(rs, restore{"a Copy() of the writer's object through the keyed codec", e.Copy(), same})
				// (last, because it lets a stranger look at the writer's own object first)
				rs = append(rs, restore{"the writer's object, after a log with ANOTHER key tried to verify it, through the keyed codec", e, same})
				for ri, r := range rs {
					if ri == len(rs)-1 {
						_ = e.Verify(provider, other) // refused, as it must be - and it must leave the object alone
					}
					sc := store.New()
					nc, err := entry.ToMultihashWithIO(x.W.Ctx, r.obj, sc.API(), nil, r.io)
					if err != nil {
						continue
					}
					nraw, ok := sc.Raw(nc)
					if !ok {
						continue
					}
					run.Count("entries_stored_again", 1)
					leaked := ""
					for _, l := range links {
						for name, pat := range forms(l) {
							if bytes.Contains(nraw, pat) {
								leaked = name
							}
						}
					}
					if nn, err := store.Decode(nc, nraw); err == nil && len(nn.Links()) > 0 {
						leaked = "traversable IPLD links"
					}
					if leaked != "" {
						w := wit()
						w["stored_again"] = r.what
						w["new_block_identifier"] = nc.String()
						run.Violate("C18/link-in-clear", det("form", leaked, "stored_again", r.what), w, "storing %s again wrote a block (%s) that shows the entry's links (%s)", r.what, hx.Short(nc.String()), leaked)
					}
					if nn, err := store.Decode(nc, nraw); err == nil && r.io == same {
						// the new block is a block like the first: the other key opens nothing, the same key everything
						if od, err := other.DecodeRawEntry(nn, nc, provider); err == nil && (len(od.GetNext()) != 0 || len(od.GetRefs()) != 0) {
							w := wit()
							w["stored_again"] = r.what
							run.Violate("C18/foreign-reader-got-links", det("reader", "other key", "stored_again", r.what), w, "after storing %s again, a reader with ANOTHER key obtains %d links from the new block", r.what, len(od.GetNext())+len(od.GetRefs()))
						}
						if sd, err := same.DecodeRawEntry(nn, nc, provider); err != nil {
							w := wit()
							w["stored_again"] = r.what
							run.Violate("C18/same-key-decode", det("stored_again", r.what), w, "after storing %s again, a reader with the same key cannot decode the new block: %v", r.what, err)
						} else if !model_eqCids(sd.GetNext(), e.Next) || !model_eqCids(sd.GetRefs(), e.Refs) {
							w := wit()
							w["stored_again"] = r.what
							run.Violate("C18/same-key-links-differ", det("stored_again", r.what), w, "after storing %s again, a reader with the same key recovers other link lists from the new block", r.what)
						}
					}
				}
			}
			// every key that differs from the writer's in ONE bit is a different key (one entry per history, all 256 bits)
			if !neighboursDone {
				neighboursDone = true
				kb := hx.LinkKeyBytes(map[string]int{"link": 1, "link2": 2}[wkey])
				for bit := 0; bit < 256; bit++ {
					nk := append([]byte(nil), kb...)
					nk[bit/8] ^= 1 << uint(bit%8)
					d, err := hx.LinkIOFromBytes(nk).DecodeRawEntry(node, e.Hash, provider)
					run.Count("readers_with_a_key_one_bit_away", 1)
					if err == nil && (len(d.GetNext()) != 0 || len(d.GetRefs()) != 0) {
						run.Violate("C18/foreign-reader-got-links", det("reader", "key differing in one bit", "byte", bit/8, "bit", bit%8), wit(), "a reader whose key differs from the writer's only in bit %d of byte %d obtained %d links", bit%8, bit/8, len(d.GetNext())+len(d.GetRefs()))
						break
					}
				}
			}
			// no key / other key; "no key" also as a codec DERIVED FROM A KEYED ONE with options that carry no key
			readers := map[string]iface.IO{"no-key": none, "other-key": other}
			if kc, ok := same.(*cbor.IOCbor); ok {
				readers["no-key (derived from the keyed codec, empty options)"] = kc.ApplyOptions(&cbor.Options{})
				readers["no-key (derived from the keyed codec, nil key)"] = kc.ApplyOptions(&cbor.Options{LinkKey: nil})
			}
			for name, rio := range readers {
				d, err := rio.DecodeRawEntry(node, e.Hash, provider)
				if err != nil {
					run.Count("reader_"+name+"_error", 1)
					continue
				}
				run.Count("reader_"+name+"_decoded", 1)
				if len(d.GetNext()) != 0 || len(d.GetRefs()) != 0 {
					run.Violate("C18/foreign-reader-got-links", det("reader", name), wit(), "reader with %s obtained %d links", name, len(d.GetNext())+len(d.GetRefs()))
				}
			}
			run.NonTrivial(fmt.Sprintf("n%d/r%d/%s/%s", minInt(len(e.Next), 9), len(e.Refs), cl, wkey))
			if len(links) > 2 && i < 3 {
				run.Sample(wit())
			}
		}
		// twin entries: two replicas of one writer share a history and append the SAME payload on the same head
		// with different pointer counts through the same codec instance: each stored block must give a same-key
		// reader the predecessors and references of ITS entry
		if i%3 == 1 {
			for _, l := range x.Logs {
				if l.Len() < 6 {
					continue
				}
				mk := func() *ipfslog.IPFSLog {
					lo := x.W.LogOpts(x.W.LogID)
					lo.Entries = l.GetEntries()
					lo.Heads = l.Heads().Slice()
					t, err := ipfslog.NewLog(x.W.Store.API(), x.W.Idents[0], lo)
					if err != nil {
						panic(err)
					}
					return t
				}
				t1, t2 := mk(), mk()
				pl := []byte(fmt.Sprintf("%d.%d/twin", h.Seed, h.Idx))
				e1, err1 := t1.Append(x.W.Ctx, pl, &iface.AppendOptions{PointerCount: 1})
				e2, err2 := t2.Append(x.W.Ctx, pl, &iface.AppendOptions{PointerCount: 16})
				if err1 != nil || err2 != nil {
					break
				}
				run.Count("twin_entries_with_different_pointer_counts", 1)
				for _, te := range []iface.IPFSLogEntry{e1, e2} {
					back, err := entry.FromMultihashWithIO(x.W.Ctx, x.W.Store.API(), te.GetHash(), provider, same)
					tw := map[string]any{"history": fmt.Sprintf("seed=%d idx=%d shape=%s", h.Seed, h.Idx, h.Shape), "twin_next": len(te.GetNext()), "twin_refs": len(te.GetRefs()), "writer_key": wkey}
					if err != nil {
						run.Violate("C18/same-key-decode", det("twins", true), tw, "same-key reader cannot read back a twin entry: %v", err)
						continue
					}
					if !model_eqCids(back.GetNext(), te.GetNext()) || !model_eqCids(back.GetRefs(), te.GetRefs()) {
						run.Violate("C18/same-key-links-differ", det("twins", true), tw, "same-key reader recovered next=%d refs=%d for an entry written with next=%d refs=%d (a twin entry with the same payload and head but another pointer count was written through the same codec)", len(back.GetNext()), len(back.GetRefs()), len(te.GetNext()), len(te.GetRefs()))
					} else if err := back.Verify(provider, same); err != nil {
						run.Violate("C18/same-key-verify", det("twins", true), tw, "twin entry read back with the same key does not verify: %v", err)
					}
				}
				break
			}
		}
		// EVERY block this history stored (appends, pre-signed writes, appends after a restore, ...): an entry block
		// must not expose links, nor contain - in the raw bytes or inside any base64 text field such as the nonce -
		// an identifier of another entry or a recognisable fragment of one
		var known []cid.Cid
		for _, e := range appended {
			known = append(known, e.Hash)
		}
		for _, c := range allAdds {
			raw := rawAt[c.KeyString()]
			var g any
			if c.Type() != cid.DagCBOR || cbornode.DecodeInto(raw, &g) != nil {
				continue
			}
			m, isMap := g.(map[string]any)
			if !isMap {
				continue
			}
			if _, isManifest := m["heads"]; isManifest {
				continue
			}
			run.Count("stored_entry_blocks_scanned", 1)
			if node, err := store.Decode(c, raw); err == nil && len(node.Links()) > 0 {
				run.Violate("C18/traversable-links", det("block", "any stored entry block"), map[string]any{"history": fmt.Sprintf("seed=%d idx=%d", h.Seed, h.Idx), "block": c.String()}, "a stored entry block exposes %d traversable links", len(node.Links()))
				break
			}
			hay := [][]byte{raw}
			for _, v := range m {
				if s, ok := v.(string); ok && len(s) >= 16 {
					if dec, err := base64.StdEncoding.DecodeString(s); err == nil {
						hay = append(hay, dec)
					}
				}
			}
			leak := ""
			for _, k := range known {
				if k.Equals(c) {
					continue
				}
				txt := k.String()
				frags := map[string][]byte{"identifier text": []byte(txt), "first 20 characters of the identifier text": []byte(txt[:20]), "characters 8-24 of the identifier text": []byte(txt[8:24]),
					"first 12 digest bytes": []byte(k.Hash())[2:14]}
				for name, pat := range frags {
					for hi, hb := range hay {
						if bytes.Contains(hb, pat) {
							leak = fmt.Sprintf("%s of entry %s (in %s)", name, hx.Short(txt), map[bool]string{true: "the raw block", false: "a base64 text field"}[hi == 0])
						}
					}
				}
			}
			if leak != "" {
				run.Violate("C18/link-in-clear", det("form", "fragment"), map[string]any{"history": fmt.Sprintf("seed=%d idx=%d", h.Seed, h.Idx), "block": c.String(), "leak": leak}, "a stored entry block contains the %s", leak)
				break
			}
		}
		// a same-key reader rebuilds each replica through every loader (with reused option values)
		for r, l := range x.Logs {
			if l.Len() == 0 || r%2 == 1 {
				continue
			}
			for _, loader := range hx.Loaders {
				back, err := x.W.Reload(l, loader, x.Writer[r], nil)
				if back == nil && err == nil {
					continue
				}
				run.Count("same_key_rebuilds_"+loader, 1)
				if err != nil || back.Len() != l.Len() {
					n := -1
					if back != nil {
						n = back.Len()
					}
					run.Violate("C18/same-key-load", det("loader", loader), histSample(h), "a same-key reader rebuilt %d of %d entries of r%d through the %s loader (err %v)", n, l.Len(), r, loader, err)
				}
			}
		}
		// same-key reader loads each replica from its heads and merges it into a fresh log
		for r, l := range x.Logs {
			if l.Len() == 0 {
				continue
			}
			w2 := *x.W
			mh, err := l.ToMultihash(x.W.Ctx)
			if err != nil {
				run.Violate("C18/publish", det(), histSample(h), "ToMultihash failed: %v", err)
				continue
			}
			lo := w2.LogOpts(w2.LogID)
			lo.IO = same
			loaded, err := ipfslog.NewFromMultihash(x.W.Ctx, x.W.Store.API(), x.W.Idents[0], mh, lo, &ipfslog.FetchOptions{})
			if err != nil || loaded.Len() != l.Len() {
				n := -1
				if loaded != nil {
					n = loaded.Len()
				}
				run.Violate("C18/same-key-load", det(), histSample(h), "same-key reader loaded %d of %d entries of r%d (err %v)", n, l.Len(), r, err)
				continue
			}
			lo2 := w2.LogOpts(w2.LogID)
			lo2.IO = same
			fresh, _ := ipfslog.NewLog(x.W.Store.API(), x.W.Idents[0], lo2)
			if _, err := fresh.Join(loaded, -1); err != nil || fresh.Len() != l.Len() {
				run.Violate("C18/same-key-merge", det(), histSample(h), "same-key reader cannot merge the loaded log of r%d: err=%v, %d of %d entries", r, err, fresh.Len(), l.Len())
			}
			run.Count("logs_loaded_and_merged_with_same_key", 1)
			// a same-key reader that starts from head OBJECTS it obtained without the key (e.g. decoded by a key-less
			// component and handed over) still recovers the links of every entry from the blocks
			if hds := l.Heads().Slice(); len(hds) > 0 && loaded.Len() >= 2 {
				var blind []iface.IPFSLogEntry
				for _, hd := range hds {
					if be, err := entry.FromMultihashWithIO(x.W.Ctx, x.W.Store.API(), hd.GetHash(), provider, none); err == nil && be != nil {
						blind = append(blind, be)
					}
				}
				if len(blind) == len(hds) {
					lo5 := w2.LogOpts(w2.LogID)
					lo5.IO = same
					fe, err := ipfslog.NewFromEntry(x.W.Ctx, x.W.Store.API(), x.W.Idents[0], blind, lo5, &entry.FetchOptions{})
					run.Count("same_key_loads_from_head_objects_decoded_without_the_key", 1)
					if err != nil || fe == nil || fe.Len() != l.Len() {
						run.Violate("C18/same-key-load", det("loader", "head entries decoded without the key"), histSample(h), "same-key reader starting from key-less head objects loaded %v of %d entries of r%d (err %v)", fe != nil, l.Len(), r, err)
					} else {
						want := map[string]iface.IPFSLogEntry{}
						for _, e := range l.GetEntries().Slice() {
							want[e.GetHash().String()] = e
						}
						for _, e := range fe.GetEntries().Slice() {
							if o, ok := want[e.GetHash().String()]; ok && (!model_eqCids(e.GetNext(), o.GetNext()) || !model_eqCids(e.GetRefs(), o.GetRefs())) {
								run.Violate("C18/same-key-links-differ", det("loader", "head entries decoded without the key"), histSample(h), "a same-key reader that started from head objects decoded without the key holds entry %s with next=%d refs=%d, written next=%d refs=%d", hx.Short(e.GetHash().String()), len(e.GetNext()), len(e.GetRefs()), len(o.GetNext()), len(o.GetRefs()))
								break
							}
						}
					}
				}
			}
			// several same-key readers merge the SAME loaded log object at the same time (its entry objects are
			// shared between them): every one of them must succeed
			if loaded.Len() >= 3 && (i+r)%2 == 0 {
				const readers = 4
				errs := make([]error, readers)
				lens := make([]int, readers)
				var wg sync.WaitGroup
				start := make(chan struct{})
				for g := 0; g < readers; g++ {
					lo4 := w2.LogOpts(w2.LogID)
					lo4.IO = same
					rl, _ := ipfslog.NewLog(x.W.Store.API(), x.W.Idents[0], lo4)
					wg.Add(1)
					go func(g int, rl *ipfslog.IPFSLog) {
						defer wg.Done()
						<-start
						_, errs[g] = rl.Join(loaded, -1)
						lens[g] = rl.Len()
					}(g, rl)
				}
				close(start)
				wg.Wait()
				run.Count("concurrent_same_key_merges_of_one_loaded_log", readers)
				for g := 0; g < readers; g++ {
					if errs[g] != nil || lens[g] != l.Len() {
						run.Violate("C18/same-key-merge", det("concurrent_readers", readers), histSample(h), "one of %d same-key readers merging the same loaded log of r%d at the same time failed: err=%v, %d of %d entries", readers, r, errs[g], lens[g], l.Len())
						break
					}
				}
			}
			// a reader without the key gets only the heads
			lo3 := w2.LogOpts(w2.LogID)
			lo3.IO = none
			if nk, err := ipfslog.NewFromMultihash(x.W.Ctx, x.W.Store.API(), x.W.Idents[0], mh, lo3, &ipfslog.FetchOptions{}); err == nil {
				if nk.Len() > len(l.Heads().Slice()) {
					run.Violate("C18/no-key-traversal", det(), histSample(h), "reader without the key traversed beyond the heads: %d entries, %d heads", nk.Len(), l.Heads().Len())
				}
			}
		}
		run.Eval(1)
	})
	c18FailingKey(run)
}

// failKey wraps a real link key and makes its k-th DeriveNonce / SealWithNonce call fail.
type failKey struct {
	enc.SharedKey
	calls  int
	failAt int
}

func (f *failKey) DeriveNonce(in []byte) ([]byte, error) {
	f.calls++
	if f.calls == f.failAt {
		return nil, fmt.Errorf("injected link-key failure (nonce)")
	}
	return f.SharedKey.DeriveNonce(in)
}

func (f *failKey) SealWithNonce(p, n []byte) ([]byte, error) {
	f.calls++
	if f.calls == f.failAt {
		return nil, fmt.Errorf("injected link-key failure (seal)")
	}
	return f.SharedKey.SealWithNonce(p, n)
}

// c18FailingKey: when sealing the links fails, the append must fail and nothing may be stored with links in clear.
func c18FailingKey(run *evid.Run) {
	n := pick(run.Tier, 60, 600)
	parallel(n, func(i int) {
		fk := &failKey{SharedKey: hx.LinkKey(1), failAt: 3 + i%14}
		io := hx.InitIO().ApplyOptions(&cbor.Options{LinkKey: fk})
		w := hx.NewWorld(run.Seed, 1, fmt.Sprintf("c18f-%d", i), "hash", "cbor")
		lo := w.LogOpts(w.LogID)
		lo.IO = io
		l, err := ipfslog.NewLog(w.Store.API(), w.Idents[0], lo)
		if err != nil {
			return
		}
		leaked := ""
		w.Store.OnAdd = func(c cid.Cid, raw []byte, _ func(cid.Cid) bool) {
			if node, err := store.Decode(c, raw); err == nil && len(node.Links()) > 0 {
				leaked = c.String()
			}
		}
		failed := 0
		for k := 0; k < 10; k++ {
			_, err := l.Append(w.Ctx, []byte(fmt.Sprintf("f-%d-%d", i, k)), &iface.AppendOptions{PointerCount: 4})
			if err != nil {
				failed++
			}
			if leaked != "" {
				run.Violate("C18/traversable-links", det("fault", "link key failure"), map[string]any{"case": i, "fail_at_call": fk.failAt, "append": k, "block": leaked, "append_error": fmt.Sprint(err)},
					"after the link key failed (call %d) a block with links in clear was stored (append #%d returned %v)", fk.failAt, k, err)
				break
			}
		}
		run.Count("appends_failed_by_injected_key_failure", failed)
		run.Count("failing_key_runs", 1)
		run.Eval(1)
		run.NonTrivialIf(failed > 0, fmt.Sprintf("failing-key/%d", fk.failAt))
	})
}
