package mon

import (
	"context"
	"encoding/json"
	"fmt"
	"math/rand"
	"sync"

	ipfslog "berty.tech/go-ipfs-log"
	"berty.tech/go-ipfs-log/iface"
	"github.com/ipfs/go-cid"
	cbornode "github.com/ipfs/go-ipld-cbor"
	"github.com/ipfs/go-merkledag"

	"verifharness/evid"
	"verifharness/hx"
	"verifharness/model"
	"verifharness/store"
)

// linksOfBlock decodes a stored block with the codec in use and returns the
// hashes it depends on: next+refs of an entry, heads of a manifest.
func linksOfBlock(w *hx.World, c cid.Cid, raw []byte) (kind string, links []cid.Cid, err error) {
	switch c.Type() {
	case cid.DagCBOR:
		var g any
		if err := cbornode.DecodeInto(raw, &g); err != nil {
			return "", nil, err
		}
		m, ok := g.(map[string]any)
		if !ok {
			return "other", nil, nil
		}
		if hs, ok := m["heads"]; ok {
			if arr, ok := hs.([]any); ok {
				for _, x := range arr {
					if l, ok := x.(cid.Cid); ok {
						links = append(links, l)
					}
				}
			}
			return "manifest", links, nil
		}
		node, err := store.Decode(c, raw)
		if err != nil {
			return "", nil, err
		}
		e, err := w.IOv().DecodeRawEntry(node, c, w.Idents[0].Provider)
		if err != nil {
			return "", nil, err
		}
		return "entry", append(append(links, e.GetNext()...), e.GetRefs()...), nil
	case cid.DagProtobuf:
		pn, err := merkledag.DecodeProtobuf(raw)
		if err != nil {
			return "", nil, err
		}
		var v struct {
			Next  []cid.Cid
			Refs  []cid.Cid
			Heads []cid.Cid
		}
		if err := json.Unmarshal(pn.Data(), &v); err != nil {
			return "", nil, err
		}
		if v.Heads != nil {
			return "manifest", v.Heads, nil
		}
		return "entry", append(v.Next, v.Refs...), nil
	}
	return "other", nil, nil
}

type published struct {
	Prefix int    // distinct blocks in the store when the operation returned
	Kind   string // manifest | entry-hash | json-heads | head-entries
	Hash   cid.Cid
	JSON   *iface.JSONLog
	Heads  []iface.IPFSLogEntry
	State  *hx.Obs
	Where  string
	Ident  int
}

func CheckC17(run *evid.Run) {
	total := pick(run.Tier, 400, 4000)
	enableNoise(run.Seed)
	run.Rule = "seeded histories of appends (a third of them PINNED; the harness pin service accepts any identifier), merges, manifest publications, denied appends, refused merges, forks and injected write failures (the k-th Add fails) on replicas sharing one store, under the default, link-encrypting and legacy codecs. (a) online assertion inside the store's Add, under the store's own mutex: every entry block decoded with the codec/key in use must find all its predecessors and references already stored, every manifest its heads; (b) crash-point enumeration: every returned manifest hash / appended entry hash / JSON head list / head-entry list is reloaded from the store prefix at the moment it was returned and from EVERY later prefix (each prefix = a crash between two block writes) and must reproduce the entry set, heads and values recorded at that moment; (c) an operation whose write failed must return an error and leave the log unchanged. Non-trivial history = >=2 replicas wrote, a merge happened and >=1 publication; distinct = shape digest + codec; crash points and reloads are counted"
	run.Assumptions = []string{"a crash is modelled as losing every block write after a prefix of the Add sequence; block writes themselves are atomic", "reload clauses run under the default and link-encrypting codecs; the legacy codec cannot read back what it writes for v2 entries (decode-only for v0 blocks), so only the closure assertion runs there"}
	parallel(total, func(i int) { c17Case(run, i) })
}

func c17Case(run *evid.Run, i int) {
	rng := rand.New(rand.NewSource(run.Seed*1000003 + int64(i)*8675309))
	codec := []string{"cbor", "cbor", "link", "pb"}[i%4]
	h := hx.Gen(run.Seed, i, hx.GenOpts{MaxSteps: pick(run.Tier, 30, 50), Orders: []string{"hash", "default"}, Codecs: []string{codec}, MaxReplicas: 4, Failures: i%2 == 0, Bursts: i%3 == 2})
	for k := range h.Steps {
		if h.Steps[k].Op == "append" && rng.Intn(3) == 0 {
			h.Steps[k].PC = 16
		}
		if h.Steps[k].Op == "append" && h.Steps[k].Payload != "" && rng.Intn(5) == 0 {
			// payloads are bytes, not text: what is stored must be what was appended
			h.Steps[k].Payload = []string{"\xde\xad\xbe\xef", "\xff\xfe\x00\x01", "ok\x80\x80tail", "\xc3\x28"}[rng.Intn(4)] + h.Steps[k].Payload
			run.Count("appends_with_a_payload_that_is_not_text", 1)
		}
		if h.Steps[k].Op == "append" && rng.Intn(3) == 0 {
			h.Steps[k].Pin = true // pinned appends: the pin service of the harness store accepts any identifier
		}
	}
	x := hx.NewExec(h)
	st := x.W.Store
	wit := func(at string) map[string]any { m := histSample(h); m["at"] = at; return m }
	// (a) online closure assertion, under the store's mutex
	var mu sync.Mutex
	cur := "setup"
	nAdds := 0
	st.OnAdd = func(c cid.Cid, raw []byte, has func(cid.Cid) bool) {
		nAdds++
		kind, links, err := linksOfBlock(x.W, c, raw)
		if err != nil {
			run.Count("blocks_not_decodable_by_monitor", 1)
			return
		}
		run.Count("adds_checked_"+kind, 1)
		for _, l := range links {
			if !has(l) {
				mu.Lock()
				at := cur
				mu.Unlock()
				run.Violate("C17/not-closed", det("kind", kind, "codec", codec), wit(at), "%s block %s was written while the block %s it depends on is not in the store (during %s)", kind, hx.Short(c.String()), hx.Short(l.String()), at)
			}
		}
	}
	// write failures
	// (an outage lasts 1, 2, 3 or 6 consecutive block writes: a writer that tries again must not turn a write that
	// never happened into a success)
	failAt, failEnd := -1, -1
	if i%5 == 3 {
		failAt = 3 + rng.Intn(20)
		failEnd = failAt + []int{0, 1, 2, 5}[(i/5)%4]
		run.Count(fmt.Sprintf("histories_with_a_write_outage_of_%d", failEnd-failAt+1), 1)
	}
	nFails := 0 // under the store's mutex; read between operations
	st.AddFail = func(n int, c cid.Cid) bool {
		if failAt >= 0 && n >= failAt && n <= failEnd {
			nFails++
			return true
		}
		return false
	}

	var pubs []*published
	writers := map[int]bool{}
	merged := false
	record := func(r int, where string) {
		l := x.Logs[r]
		if l.Len() == 0 {
			return
		}
		o := hx.Observe(l)
		// manifest
		failsBefore := nFails
		c, err := l.ToMultihash(x.W.Ctx)
		if err == nil && nFails > failsBefore && !st.Has(c) {
			run.Violate("C17/failed-write-reported-success", det("op", "ToMultihash", "codec", codec), wit(where), "ToMultihash returned %s without an error although the store refused the write(s) and does not hold that block", hx.Short(c.String()))
		}
		if err != nil {
			if nFails > failsBefore {
				run.Count("publication_failed_by_injected_write_error", 1)
			} else {
				run.Violate("C17/publish-error", det("codec", codec), wit(where), "ToMultihash failed: %v", err)
			}
		} else {
			pubs = append(pubs, &published{Prefix: st.NBlocks(), Kind: "manifest", Hash: c, State: o, Where: where, Ident: x.Writer[r]})
		}
		pubs = append(pubs, &published{Prefix: st.NBlocks(), Kind: "json-heads", JSON: l.ToJSONLog(), State: o, Where: where, Ident: x.Writer[r]})
		pubs = append(pubs, &published{Prefix: st.NBlocks(), Kind: "head-entries", Heads: l.Heads().Slice(), State: o, Where: where, Ident: x.Writer[r]})
	}
	for k, s := range h.Steps {
		where := fmt.Sprintf("step %d %s", k, s)
		mu.Lock()
		cur = where
		mu.Unlock()
		l := x.Logs[s.R]
		var before *hx.Obs
		if s.Op == "append" {
			before = hx.Observe(l)
		}
		// every 7th append is denied by the controller: leaves an orphan (but closed) block
		if s.Op == "append" && k%7 == 6 {
			pol := &policy{name: "deny-all", denyPay: func([]byte) bool { return true }}
			saved := l.AccessController
			l.AccessController = pol
			_, err := l.Append(x.W.Ctx, []byte(s.Payload+"-denied"), nil)
			l.AccessController = saved
			if err == nil {
				run.Violate("C17/denied-append-accepted", det(), wit(where), "denied append returned no error")
			}
			run.Count("denied_appends", 1)
			if df := obsEqual(before, hx.Observe(l)); df != "" {
				run.Violate("C17/denied-append-changed", det(), wit(where), "denied append changed the log: %s", df)
			}
		}
		failsBefore := nFails
		var beforeRefused *hx.Obs
		if s.ExpectsError() {
			beforeRefused = hx.Observe(l)
		}
		res := x.Do(k)
		if s.ExpectsError() {
			countRefused(run, s)
			if res.Err != nil {
				if df := obsEqual(beforeRefused, hx.Observe(l)); df != "" {
					run.Violate("C17/refused-op-changed", det("op", s.Op), wit(where), "%s returned an error but changed the log: %s", s.Op, df)
				}
			}
			// a refused operation must not influence what later publications load to
			if rng.Intn(2) == 0 {
				record(s.R, where+" +publish")
			}
			continue
		}
		switch s.Op {
		case "append":
			if res.Err == nil && nFails > failsBefore && !st.Has(res.Entry.GetHash()) {
				run.Violate("C17/failed-write-reported-success", det("op", "Append", "codec", codec), wit(where), "Append returned entry %s without an error although the store refused the write(s) and does not hold that block", hx.Short(res.Entry.GetHash().String()))
				continue
			}
			if res.Err != nil {
				if nFails > failsBefore {
					run.Count("append_failed_by_injected_write_error", 1)
					if df := obsEqual(before, hx.Observe(l)); df != "" {
						run.Violate("C17/failed-append-changed", det("codec", codec), wit(where), "append whose block write failed changed the log: %s", df)
					}
				} else {
					run.Violate("C17/append-error", det("codec", codec), wit(where), "append failed: %v", res.Err)
				}
				continue
			}
			writers[s.R] = true
			o := hx.Observe(l)
			pubs = append(pubs, &published{Prefix: st.NBlocks(), Kind: "entry-hash", Hash: res.Entry.GetHash(), State: o, Where: where, Ident: x.Writer[s.R]})
			if rng.Intn(3) == 0 {
				record(s.R, where+" +publish")
			}
		case "burst":
			run.Count("concurrent_bursts", 1)
			// concurrent appends and overlapping merges into one replica: whatever is published afterwards
			// must load to what the replica holds
			record(s.R, where+" +publish")
			if e, err := l.Append(x.W.Ctx, []byte(s.Payload+"-after-burst"), nil); err == nil {
				pubs = append(pubs, &published{Prefix: st.NBlocks(), Kind: "entry-hash", Hash: e.GetHash(), State: hx.Observe(l), Where: where + " +append", Ident: x.Writer[s.R]})
			}
		case "join", "joinempty", "joinself", "joinforeign", "fork":
			if res.Err == nil && s.Op == "join" {
				merged = true
			}
			if rng.Intn(2) == 0 {
				record(s.R, where+" +publish")
			}
		}
	}
	// a refused append whose entry is byte-identical to one another handle on the same store appended
	// successfully (same writer, same heads, same payload): nothing that is stored may be lost through it
	if i%3 == 1 && failAt < 0 {
		for r, l := range x.Logs {
			if l.Len() == 0 {
				continue
			}
			mkh := func(deny bool) *ipfslog.IPFSLog {
				lo := x.W.LogOpts(x.W.LogID)
				lo.Entries = l.GetEntries()
				lo.Heads = l.Heads().Slice()
				if deny {
					lo.AccessController = &policy{name: "deny-all", denyPay: func([]byte) bool { return true }}
				} else {
					lo.AccessController = nil
				}
				nl, err := ipfslog.NewLog(st.API(), x.W.Idents[x.Writer[r]], lo)
				if err != nil {
					panic(err)
				}
				return nl
			}
			writable, refusing := mkh(false), mkh(true)
			mu.Lock()
			cur = fmt.Sprintf("refused duplicate append on a second handle of r%d", r)
			mu.Unlock()
			p := []byte(fmt.Sprintf("%d.%d/dup%d", h.Seed, h.Idx, r))
			e1, err := writable.Append(x.W.Ctx, p, nil)
			if err != nil {
				continue
			}
			state1 := hx.Observe(writable)
			if _, err := refusing.Append(x.W.Ctx, p, nil); err == nil {
				run.Violate("C17/denied-append-accepted", det(), wit(cur), "deny-all handle accepted an append")
			}
			run.Count("refused_duplicate_appends", 1)
			if !st.Has(e1.GetHash()) {
				run.Violate("C17/block-lost", det("codec", codec), wit(cur), "the block of an entry whose Append had returned is gone from the store after another handle was refused the identical entry")
			}
			if _, err := writable.Append(x.W.Ctx, append(p, '2'), nil); err != nil {
				run.Violate("C17/append-error", det("codec", codec), wit(cur), "append after the refused duplicate failed: %v", err)
			}
			if codec != "pb" {
				pubs = append(pubs, &published{Prefix: st.NBlocks(), Kind: "entry-hash", Hash: e1.GetHash(), State: state1, Where: cur, Ident: x.Writer[r]})
			}
			break
		}
	}
	// the context of an operation ends WHILE its block write is pending at a store that honours contexts (and so drops
	// the write): the operation must not report success for a block the store does not hold
	if i%5 == 1 {
		for r, l := range x.Logs {
			if l.Len() == 0 {
				continue
			}
			before := hx.Observe(l)
			ctx, cancel := context.WithCancel(x.W.Ctx)
			armed := true
			st.AddStall = func(n int, c cid.Cid) bool {
				if armed {
					armed = false
					return true
				}
				return false
			}
			st.OnStall = cancel
			op := []string{"Append", "ToMultihash"}[(i/5)%2]
			mu.Lock()
			cur = fmt.Sprintf("%s on r%d whose context ends while the block write is pending", op, r)
			at := cur
			mu.Unlock()
			var hash cid.Cid
			var err error
			if op == "Append" {
				var e iface.IPFSLogEntry
				if e, err = l.Append(ctx, []byte(fmt.Sprintf("%d.%d/ctx-ends-mid-write", h.Seed, h.Idx)), nil); err == nil {
					hash = e.GetHash()
				}
			} else {
				hash, err = l.ToMultihash(ctx)
			}
			st.AddStall, st.OnStall = nil, nil
			cancel()
			run.Count("operations_whose_context_ended_while_the_block_write_was_pending", 1)
			if err == nil && !st.Has(hash) {
				run.Violate("C17/failed-write-reported-success", det("op", op, "codec", codec, "fault", "context ended mid-write"), wit(at), "%s returned %s without an error although its context ended while the write was pending and the store does not hold that block", op, hx.Short(hash.String()))
			}
			if err != nil {
				if df := obsEqual(before, hx.Observe(l)); df != "" {
					run.Violate("C17/failed-append-changed", det("codec", codec, "fault", "context ended mid-write"), wit(at), "%s failed (%v) but changed the log: %s", op, err, df)
				}
			}
			// the replica goes on under a live context: the closure assertion inside the store watches the next write
			if e, err := l.Append(x.W.Ctx, []byte(fmt.Sprintf("%d.%d/after-ctx-end", h.Seed, h.Idx)), nil); err == nil && codec != "pb" {
				pubs = append(pubs, &published{Prefix: st.NBlocks(), Kind: "entry-hash", Hash: e.GetHash(), State: hx.Observe(l), Where: at + " +append", Ident: x.Writer[r]})
			}
			break
		}
	}
	// a log that was started WITHOUT a link key and is continued WITH one after a restart: the keyed replica recovers from
	// the last head hash (blocks with links in clear), appends (blocks with sealed links) and recovers again
	if codec == "cbor" && i%4 == 1 {
		for r, l := range x.Logs {
			hd := l.Heads().Slice()
			if len(hd) != 1 || l.Len() < 2 {
				continue
			}
			kw := *x.W
			kw.SetIO(hx.IO("link"))
			at := fmt.Sprintf("r%d continued with a link key after a restart", r)
			want := hx.Observe(l)
			kl, err := kw.LoadHash(hd[0].GetHash(), x.Writer[r], &hx.LoadOpts{})
			run.Count("logs_continued_with_a_link_key", 1)
			if err != nil || kl == nil {
				run.Violate("C17/reload-error", det("kind", "entry-hash", "codec", "cbor->link"), wit(at), "a keyed replica cannot recover a log written without the key: %v", err)
				break
			}
			if got := hx.Observe(kl); !model.SameKeys(got.Set, want.Set) {
				run.Violate("C17/reload-entries", det("kind", "entry-hash", "codec", "cbor->link"), wit(at), "a keyed replica recovered %d of the %d entries of a log written without the key", len(got.Set), len(want.Set))
				break
			}
			var last iface.IPFSLogEntry
			for q := 0; q < 2; q++ {
				if last, err = kl.Append(x.W.Ctx, []byte(fmt.Sprintf("%d.%d/keyed-%d", h.Seed, h.Idx, q)), &iface.AppendOptions{PointerCount: 4}); err != nil {
					break
				}
			}
			if err != nil || last == nil {
				break
			}
			state := hx.Observe(kl)
			k2, err := kw.LoadHash(last.GetHash(), x.Writer[r], &hx.LoadOpts{})
			if err != nil || k2 == nil {
				run.Violate("C17/reload-error", det("kind", "entry-hash", "codec", "cbor->link"), wit(at), "reload after the keyed appends failed: %v", err)
				break
			}
			if got := hx.Observe(k2); !model.SameKeys(got.Set, state.Set) {
				run.Violate("C17/reload-entries", det("kind", "entry-hash", "codec", "cbor->link"), wit(at), "after two keyed appends the head hash loads %d entries, the replica held %d", len(got.Set), len(state.Set))
			}
			break
		}
	}
	W := st.NBlocks()
	run.Count("block_writes", W)
	run.Count("publications", len(pubs))
	// (b) crash-point enumeration
	if codec != "pb" {
		// one recovering process for the whole case: in the histories that say so (ReuseOptions) it keeps ONE options
		// value and hands it to every load it performs, crash after crash
		w2 := *x.W
		if w2.ReuseOptions {
			run.Count("histories_recovering_with_one_reused_options_value", 1)
		}
		for _, p := range pubs {
			qs := []int{}
			for q := p.Prefix; q <= W; q++ {
				qs = append(qs, q)
			}
			if run.Tier != "thorough" && len(qs) > 6 {
				// quick: the prefix itself, the next two, the last, and two seeded ones in between
				qs = []int{p.Prefix, p.Prefix + 1, p.Prefix + 2, W, p.Prefix + 3 + rng.Intn(len(qs)-3), p.Prefix + 3 + rng.Intn(len(qs)-3)}
			}
			for _, q := range qs {
				ps := st.Prefix(q)
				w2.Store = ps
				var loaded *ipfslog.IPFSLog
				var err error
				lopts := &hx.LoadOpts{}
				if (q+len(p.Where))%3 == 1 {
					// few fetch slots (fewer than the log has heads / parents per entry); with a fetch timeout so that a load
					// that cannot make progress comes back (with a hole) instead of keeping this in-process check waiting
					lopts.Concurrency = 1 + q%2
					lopts.TimeoutMs = 60000
					run.Count("crash_point_reloads_with_1_or_2_fetch_slots", 1)
				} else if (q+len(p.Where))%2 == 0 {
					lopts.TimeoutMs = 600000 // a (very generous) fetch timeout must not change what is loaded
					run.Count("crash_point_reloads_with_a_fetch_timeout", 1)
				}
				switch p.Kind {
				case "manifest":
					loaded, err = w2.LoadManifest(p.Hash, p.Ident, lopts)
				case "entry-hash":
					loaded, err = w2.LoadHash(p.Hash, p.Ident, lopts)
				case "json-heads":
					loaded, err = w2.LoadJSON(p.JSON, p.Ident, lopts)
				case "head-entries":
					loaded, err = w2.LoadEntries(p.Heads, p.Ident, lopts)
				}
				run.Count("crash_point_reloads", 1)
				d := det("kind", p.Kind, "codec", codec, "later_prefix", q > p.Prefix)
				at := fmt.Sprintf("%s published at %s with %d blocks stored, reloaded from the store prefix of %d of %d blocks", p.Kind, p.Where, p.Prefix, q, W)
				if err != nil || loaded == nil {
					run.Violate("C17/reload-error", d, wit(at), "reload failed: %v (%s)", err, at)
					continue
				}
				got := hx.Observe(loaded)
				if got.ID != p.State.ID {
					run.Violate("C17/reload-id", d, wit(at), "the reloaded log is log %q, the published one was %q (%s)", got.ID, p.State.ID, at)
				}
				if !model.SameKeys(got.Set, p.State.Set) {
					run.Violate("C17/reload-entries", d, wit(at), "reloaded %d entries, the state at publication had %d (%s)", len(got.Set), len(p.State.Set), at)
					continue
				}
				for k, e := range got.Set {
					if pe := p.State.Set[k]; pe != nil && pe.Digest != e.Digest {
						what := "fields"
						if pe.Payload != e.Payload {
							what = fmt.Sprintf("payload (%d bytes at publication, %d bytes reloaded)", len(pe.Payload), len(e.Payload))
						}
						run.Violate("C17/reload-content", d, wit(at), "entry %s reloads with other content than it had when the operation returned: %s (%s)", hx.Short(k), what, at)
						break
					}
				}
				if !model.EqualAsSets(got.Heads, p.State.Heads) {
					run.Violate("C17/reload-heads", d, wit(at), "reloaded heads differ from the state at publication (%s)", at)
				}
				if totalOrder(h.Order, got.Set) && !model.EqualSeq(got.Values, p.State.Values) {
					run.Violate("C17/reload-values", d, wit(at), "reloaded values differ from the state at publication (%s)", at)
				}
			}
		}
	}
	run.Eval(1)
	run.Count("codec_"+codec, 1)
	if len(writers) >= 2 && merged && len(pubs) > 0 {
		U := model.Set{}
		for r := range x.Logs {
			U = model.Union(U, hx.Observe(x.Logs[r]).Set)
		}
		run.NonTrivial(model.ShapeDigest(U) + "/" + codec)
	}
	if i < 2 {
		m := histSample(h)
		m["block_writes"] = W
		m["publications"] = len(pubs)
		run.Sample(m)
	}
}
