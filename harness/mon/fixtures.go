package mon

import (
	"berty.tech/go-ipfs-log/entry"
	idp "berty.tech/go-ipfs-log/identityprovider"
	"github.com/ipfs/go-cid"
)

// Literal values pinned in the repository's own suite (test/utils_fixtures_test.go).

const v0Key = "0411a0d38181c9374eca3e480ecada96b1a4db9375c5e08c3991557759d22f6f2f902d0dc5364a948035002504d825308b0c257b7cbb35229c2076532531f8f4ef"
const v0Sig = "3044022062f4cfc8b8f3cc01283b25eab3eeb295614bb0faa8bd20f026c1487ae663121102207ce415bd7423b66d695338c17122e937259f77d1e86494d3146436f0959fccc6"

func v0Fixtures() map[string]*entry.Entry {
	mk := func(hash, payload string, next []cid.Cid) *entry.Entry {
		return &entry.Entry{Hash: mustCid(hash), LogID: "A", Payload: []byte(payload), V: 0,
			Clock: entry.NewLamportClock(mustHex(v0Key), 0), Sig: mustHex(v0Sig), Key: mustHex(v0Key), Next: next}
	}
	return map[string]*entry.Entry{
		"hello":      mk("Qmc2DEiLirMH73kHpuFPbt3V65sBrnDWkJYSjUQHXXvghT", "hello", []cid.Cid{}),
		"helloWorld": mk("QmUKMoRrmsYAzQg1nQiD7Fzgpo24zXky7jVJNcZGiSAdhc", "hello world", []cid.Cid{}),
		"helloAgain": mk("QmZ8va2fSjRufV1sD6x5mwi6E5GrSjXHx7RiKFVBzkiUNZ", "hello again", []cid.Cid{mustCid("QmUKMoRrmsYAzQg1nQiD7Fzgpo24zXky7jVJNcZGiSAdhc")}),
	}
}

const v1Key = "048bef2231e64d5c7147bd4b8afb84abd4126ee8d8335e4b069ac0a65c7be711cea5c1b8d47bc20ebaecdca588600ddf2894675e78b2ef17cf49e7bbaf98080361"

func v1Fixtures(id *idp.Identity) []entry.Entry {
	ident := func() *idp.Identity {
		return &idp.Identity{
			ID:        "03e0480538c2a39951d054e17ff31fde487cb1031d0044a037b53ad2e028a3e77c",
			PublicKey: mustHex(v1Key),
			Signatures: &idp.IdentitySignature{
				ID:        mustHex("3045022100f5f6f10571d14347aaf34e526ce3419fd64d75ffa7aa73692cbb6aeb6fbc147102203a3e3fa41fa8fcbb9fc7c148af5b640e2f704b20b3a4e0b93fc3a6d44dffb41e"),
				PublicKey: mustHex("3044022020982b8492be0c184dc29de0a3a3bd86a86ba997756b0bf41ddabd24b47c5acf02203745fda39d7df650a5a478e52bbe879f0cb45c074025a93471414a56077640a4"),
			},
			Type:     "orbitdb",
			Provider: id.Provider,
		}
	}
	mk := func(payload string, next []cid.Cid, sig, hash string, t int) entry.Entry {
		return entry.Entry{Payload: []byte(payload), LogID: "A", Next: next, V: 1, Key: mustHex(v1Key), Sig: mustHex(sig),
			Identity: ident(), Hash: mustCid(hash), Clock: entry.NewLamportClock(mustHex(v1Key), t)}
	}
	return []entry.Entry{
		mk("one", []cid.Cid{}, "3045022100f72546c99cf30eda1d394d91209bdb4569408a792caf9dc7c6415fef37a3118d0220645c4a6d218f8fc478af5bab175aaa99e1505d70c2a00997aacafa8de697944e", "zdpuAsJDrLKrAiU8M518eu6mgv9HzS3e1pfH5XC7LUsFgsK5c", 1),
		mk("two", []cid.Cid{mustCid("zdpuAsJDrLKrAiU8M518eu6mgv9HzS3e1pfH5XC7LUsFgsK5c")}, "3045022100b85c85c59e6d0952f95e3839e48b43b4073ef26f6f4696d785ce64053cd5869a0220644a4a7a15ddcd2b152611b08bf23b9df7823846719f2d0e4b0aff64190ed146", "zdpuAxgKyiM9qkP9yPKCCqrHer9kCqYyr7KbhucsPwwfh6JB3", 2),
		mk("three", []cid.Cid{mustCid("zdpuAxgKyiM9qkP9yPKCCqrHer9kCqYyr7KbhucsPwwfh6JB3")}, "304402206f6a1582bc2c18b63eeb5b1e2280f2700c5d467d60185738702f90f4e655214602202ce0fb6de31b42a24768f274ecb4c1e2ed8529e073cfb361fc1ef5d1e2d75a31", "zdpuAq7PAbQ7iavSdkNUUUrRUba5wSpRDJRsiC8RcvkXdgqYJ", 3),
		mk("four", []cid.Cid{mustCid("zdpuAq7PAbQ7iavSdkNUUUrRUba5wSpRDJRsiC8RcvkXdgqYJ")}, "30440220103ff89892856ec222d37b1244199cfb6e39629f155cd80ffa9b6e0b67de98940220391da8dc35e0b99f247c41676b8fb2337879d05dd343c55d9a89275c05076dcc", "zdpuAqgCh78NCXffmFYv4DM2KfhhpY92agJ9sKRB2eq9B5mFA", 4),
		mk("five", []cid.Cid{mustCid("zdpuAq7PAbQ7iavSdkNUUUrRUba5wSpRDJRsiC8RcvkXdgqYJ")}, "3044022012a6bad4be1aabec23816bc8ccaf3cb41d43f06adb3f7d55b14fe2ddae37035a02204324d0b9481c351a1b6c391bd9cb960c039f102f950cf2a48fd8648f7615c51f", "zdpuAwNuRc2Kc1aNDdcdSWuxfNpHRJQw8L8APBNHCEFuyU4Xf", 4),
	}
}
