package mon

import (
	ipfslog "berty.tech/go-ipfs-log"
	"bytes"
	"context"
	"encoding/hex"
	"fmt"
	"github.com/ipfs/go-cid"
	"math/rand"
	"sort"
	"strings"
	"sync"
	"sync/atomic"
	"time"

	"berty.tech/go-ipfs-log/entry"
	idp "berty.tech/go-ipfs-log/identityprovider"
	"berty.tech/go-ipfs-log/keystore"
	ds "github.com/ipfs/go-datastore"
	dssync "github.com/ipfs/go-datastore/sync"
	"github.com/libp2p/go-libp2p/core/crypto"

	"verifharness/evid"
	"verifharness/hx"
	"verifharness/store"
)

// countingDS is the instrumented datastore shared by several keystore instances.
type countingDS struct {
	ds.Datastore
	gets, puts int64
	failPut    func(k ds.Key) bool // injected write failure
	honourCtx  bool                // like datastores backed by a database or the network: refuse requests whose context has ended
}

func (c *countingDS) Get(ctx context.Context, k ds.Key) ([]byte, error) {
	atomic.AddInt64(&c.gets, 1)
	if err := ctx.Err(); err != nil && c.honourCtx {
		return nil, err
	}
	return c.Datastore.Get(ctx, k)
}

func (c *countingDS) Has(ctx context.Context, k ds.Key) (bool, error) {
	if err := ctx.Err(); err != nil && c.honourCtx {
		return false, err
	}
	return c.Datastore.Has(ctx, k)
}

func (c *countingDS) Put(ctx context.Context, k ds.Key, v []byte) error {
	atomic.AddInt64(&c.puts, 1)
	if err := ctx.Err(); err != nil && c.honourCtx {
		return err
	}
	if c.failPut != nil && c.failPut(k) {
		return fmt.Errorf("injected datastore write failure")
	}
	return c.Datastore.Put(ctx, k, v)
}

func rawKey(p crypto.PrivKey) []byte {
	b, _ := p.Raw()
	return b
}

func identityDiff(a, b *idp.Identity) string {
	switch {
	case a.ID != b.ID:
		return "id"
	case !bytes.Equal(a.PublicKey, b.PublicKey):
		return "public key"
	case a.Type != b.Type:
		return "type"
	case (a.Signatures == nil) != (b.Signatures == nil):
		return "signatures"
	case a.Signatures != nil && !bytes.Equal(a.Signatures.ID, b.Signatures.ID):
		return "id signature"
	case a.Signatures != nil && !bytes.Equal(a.Signatures.PublicKey, b.Signatures.PublicKey):
		return "public-key signature"
	}
	return ""
}

// checkIdentity verifies the self-consistency clauses directly with libp2p.
func checkIdentity(run *evid.Run, id *idp.Identity, name string, wit func() map[string]any) {
	pub, err := crypto.UnmarshalSecp256k1PublicKey(id.PublicKey)
	if err != nil {
		run.Violate("C20/published-key-unparsable", det(), wit(), "published public key of %s does not parse: %v", name, err)
		return
	}
	if id.Signatures == nil {
		run.Violate("C20/no-signatures", det(), wit(), "identity %s has no signatures", name)
		return
	}
	if ok, err := pub.Verify([]byte(id.ID), id.Signatures.ID); err != nil || !ok {
		run.Violate("C20/id-signature", det(), wit(), "id signature of %s does not verify under the published public key over the id (%v)", name, err)
	}
	idBytes, err := hex.DecodeString(id.ID)
	if err != nil {
		run.Violate("C20/id-not-hex-key", det(), wit(), "identity id of %s is not a hex public key", name)
		return
	}
	idKey, err := crypto.UnmarshalSecp256k1PublicKey(idBytes)
	if err != nil {
		run.Violate("C20/id-not-hex-key", det(), wit(), "identity id of %s does not denote a key: %v", name, err)
		return
	}
	signed := []byte(hex.EncodeToString(append(append([]byte(nil), id.PublicKey...), id.Signatures.ID...)))
	if ok, err := idKey.Verify(signed, id.Signatures.PublicKey); err != nil || !ok {
		run.Violate("C20/public-key-signature", det(), wit(), "public-key signature of %s does not verify under the key its id denotes (%v)", name, err)
	}
}

func CheckC20(run *evid.Run) {
	nseq := pick(run.Tier, 200, 3000)
	run.Rule = "seeded sequential interleavings of {create key, get, has, create identity, new keystore instance ('restart'), sign+verify an entry} over 1-4 real Keystore instances sharing one instrumented datastore and 1-400 ids (beyond the 128-entry cache), each id created once, half of them after OTHER instances were asked about the id while it did not exist yet; a reference map id -> key bytes decides HasKey/GetKey on EVERY instance after every creation and on probes of never-created ids; identity clauses are verified directly with libp2p using only the published bytes; thorough adds concurrent use on distinct ids under the race detector. Non-trivial sequence = touched >128 ids or used >=2 instances; distinct = (ids bucket, instances, restarts bucket)"
	var anyEvict int64
	parallel(nseq, func(i int) {
		rng := rand.New(rand.NewSource(run.Seed*2750159 + int64(i)))
		ctx := context.Background()
		d := &countingDS{Datastore: dssync.MutexWrap(ds.NewMapDatastore()), honourCtx: i%2 == 0}
		newKS := func() *keystore.Keystore {
			k, err := keystore.NewKeystore(d)
			if err != nil {
				panic(err)
			}
			return k
		}
		inst := []*keystore.Keystore{newKS()}
		for k := rng.Intn(4); k > 0; k-- {
			inst = append(inst, newKS())
		}
		nIDs := []int{1, 3, 20, 140, 400}[i%5]
		if run.Tier == "quick" && nIDs == 400 && i%10 != 4 {
			nIDs = 200
		}
		ref := map[string][]byte{}
		idents := map[string]*idp.Identity{} // name -> the identity its first creation yielded
		var identNames []string
		var prevIdent *idp.Identity          // the identity of the previous identity operation (usually another name)
		var ids []string
		restarts := 0
		var trace []string
		log := func(f string, a ...any) {
			if len(trace) < 60 {
				trace = append(trace, fmt.Sprintf(f, a...))
			}
		}
		wit := func() map[string]any {
			return map[string]any{"sequence": i, "instances": len(inst), "ids_created": len(ids), "restarts": restarts, "first_ops": trace}
		}
		probe := func(id string, who int) {
			k := inst[who]
			want, created := ref[id]
			has, herr := k.HasKey(ctx, id)
			run.Count("has_probes", 1)
			if created && !has {
				run.Violate("C20/haskey-false-for-created", det("cached", false), wit(), "HasKey(%q) = false (err %v) on instance %d although the key was created", id, herr, who)
			}
			if !created && has {
				run.Violate("C20/haskey-true-for-unknown", det(), wit(), "HasKey(%q) = true for an id never created", id)
			}
			p, gerr := k.GetKey(ctx, id)
			run.Count("get_probes", 1)
			if created {
				if gerr != nil || p == nil {
					run.Violate("C20/getkey-fails", det(), wit(), "GetKey(%q) failed on instance %d: %v", id, who, gerr)
				} else if !bytes.Equal(rawKey(p), want) {
					run.Violate("C20/getkey-different", det(), wit(), "GetKey(%q) on instance %d returned different key material", id, who)
				}
			} else if gerr == nil {
				run.Violate("C20/getkey-unknown", det(), wit(), "GetKey(%q) succeeded for an id never created", id)
			}
			// a second HasKey after GetKey populated the cache
			if has2, _ := k.HasKey(ctx, id); created != has2 {
				run.Violate("C20/haskey-after-get", det("cached", true), wit(), "HasKey(%q) = %v after GetKey on instance %d, created=%v", id, has2, who, created)
			}
		}
		nops := nIDs*3 + 20
		for op := 0; op < nops; op++ {
			who := rng.Intn(len(inst))
			switch x := rng.Intn(100); {
			case x < 35 && len(ids) < nIDs:
				id := fmt.Sprintf("id-%d-%d", i, len(ids))
				// ids are opaque strings: some look like paths (the datastore key is derived from them)
				sibling := ""
				switch len(ids) % 7 {
				case 3:
					id = fmt.Sprintf("/orbitdb/keys/alice-%d-%d", i, len(ids))
				case 5:
					id = fmt.Sprintf("team//bob-%d-%d", i, len(ids))
					sibling = fmt.Sprintf("team/bob-%d-%d", i, len(ids)) // another id, never created
				case 6:
					id = fmt.Sprintf("x/./y-%d-%d", i, len(ids))
					sibling = fmt.Sprintf("x/y-%d-%d", i, len(ids))
				case 2:
					if _, done := ref[""]; !done && i%3 == 0 {
						id = "" // the empty id is an id like any other
					}
				}
				if id == "" || id[0] != 'i' {
					run.Count("path_like_ids_created", 1)
				}
				defer func(sibling string) {
					// (probed at the end of the sequence, on every instance and a fresh one)
					if sibling == "" {
						return
					}
					fresh := newKS()
					if has, _ := fresh.HasKey(ctx, sibling); has {
						// the datastore key is datastore.NewKey(id), which path-cleans its argument
						same := ds.NewKey(id) == ds.NewKey(sibling)
						run.Violate("C20/haskey-true-for-unknown", det("ids_differ_only_by_path_cleaning", same), map[string]any{"created": id, "never_created": sibling, "datastore_key_of_both": ds.NewKey(id).String()},
							"HasKey(%q) = true although only %q was ever created (both ids map to the datastore key %s: %v)", sibling, id, ds.NewKey(id), same)
					}
					run.Count("never_created_siblings_of_path_like_ids_probed", 1)
				}(sibling)
				if rng.Intn(2) == 0 {
					// ask other instances about the id BEFORE it exists (must be absent), then create it elsewhere
					for w := range inst {
						if w != who && rng.Intn(2) == 0 {
							log("probe-before-create(%s)@%d", id, w)
							probe(id, w)
						}
					}
					run.Count("ids_probed_before_creation_elsewhere", 1)
				}
				p, err := inst[who].CreateKey(ctx, id)
				if err != nil {
					run.Violate("C20/createkey-error", det(), wit(), "CreateKey failed: %v", err)
					continue
				}
				ref[id] = rawKey(p)
				ids = append(ids, id)
				log("create(%s)@%d", id, who)
				for w := range inst {
					probe(id, w)
				}
			case x < 40 && len(ids) < nIDs:
				// a creation whose datastore write fails: it must fail and leave NO trace on any instance
				id := fmt.Sprintf("id-%d-failed-%d", i, op)
				d.failPut = func(k ds.Key) bool { return k == ds.NewKey(id) }
				_, err := inst[who].CreateKey(ctx, id)
				d.failPut = nil
				log("create-with-failing-write(%s)@%d", id, who)
				run.Count("creations_with_injected_write_failure", 1)
				if err == nil {
					run.Violate("C20/createkey-ignored-write-failure", det(), wit(), "CreateKey(%q) returned no error although the datastore write failed", id)
				}
				for w := range inst {
					probe(id, w) // never created: must be absent everywhere
				}
			case x < 44 && len(ids) > 0:
				// ids are case sensitive: a case variant of a created id was never created
				base := ids[rng.Intn(len(ids))]
				variant := strings.ToUpper(base)
				if _, created := ref[variant]; !created {
					log("probe-case-variant(%s)@%d", variant, who)
					run.Count("case_variant_probes", 1)
					probe(variant, who)
					if rng.Intn(2) == 0 {
						// ... and creating it gives a key of its own
						p, err := inst[who].CreateKey(ctx, variant)
						if err == nil {
							ref[variant] = rawKey(p)
							ids = append(ids, variant)
							for w := range inst {
								probe(variant, w)
								probe(base, w)
							}
						}
					}
				}
			case x < 46 && len(ids) > 0:
				// the key of an id is REPLACED (created again) on one instance: that instance and every keystore opened
				// afterwards must return the key that creation returned (instances that cached the old key earlier are
				// not asked: a replaced key is outside "a key once created" for them)
				id := ids[rng.Intn(len(ids))]
				p, err := inst[who].CreateKey(ctx, id)
				log("create-again(%s)@%d", id, who)
				run.Count("keys_created_again_on_one_instance", 1)
				if err != nil {
					run.Violate("C20/createkey-error", det("again", true), wit(), "creating the key of %q again failed: %v", id, err)
					break
				}
				ref[id] = rawKey(p)
				fresh := newKS()
				for name, k := range map[string]*keystore.Keystore{"the instance that created it again": inst[who], "a keystore opened afterwards": fresh} {
					g, gerr := k.GetKey(ctx, id)
					if gerr != nil || g == nil || !bytes.Equal(rawKey(g), ref[id]) {
						run.Violate("C20/getkey-different", det("after", "key created again", "asked", name), wit(), "after the key of %q was created again, GetKey on %s does not return the key that creation returned (err %v)", id, name, gerr)
					}
				}
				// the other long-lived instances are replaced by fresh ones (they may hold the old key in their cache)
				for w := range inst {
					if w != who {
						inst[w] = newKS()
					}
				}
			case x < 47:
				// a keystore over ANOTHER datastore in the same process knows nothing about the ids created here
				od := &countingDS{Datastore: dssync.MutexWrap(ds.NewMapDatastore())}
				ok2, err := keystore.NewKeystore(od)
				if err == nil {
					run.Count("keystores_over_another_datastore_probed", 1)
					for n := 0; n < 3 && n < len(ids); n++ {
						id := ids[rng.Intn(len(ids))]
						if has, _ := ok2.HasKey(ctx, id); has {
							run.Violate("C20/haskey-true-for-unknown", det("keystore", "over another datastore"), wit(), "a keystore over a DIFFERENT (empty) datastore reports the key of %q present", id)
						}
						if g, gerr := ok2.GetKey(ctx, id); gerr == nil && g != nil {
							run.Violate("C20/getkey-unknown", det("keystore", "over another datastore"), wit(), "a keystore over a DIFFERENT (empty) datastore returns a key for %q", id)
						}
					}
					// and creating the id there gives that datastore a key of its own, leaving this one's alone
					if len(ids) > 0 {
						id := ids[rng.Intn(len(ids))]
						if _, err := ok2.CreateKey(ctx, id); err == nil {
							probe(id, who)
						}
					}
				}
			case x < 48 && len(ids) > 0:
				// a request that was given up (its context has ended) about an existing key, or an identity creation
				// under such a context: whatever it returns, it must not replace or lose anything
				done, cancel := context.WithCancel(ctx)
				cancel()
				if rng.Intn(2) == 0 {
					done, cancel = context.WithDeadline(ctx, time.Unix(1, 0))
					defer cancel()
				}
				id := ids[rng.Intn(len(ids))]
				_, _ = inst[who].HasKey(done, id)
				_, _ = inst[who].GetKey(done, id)
				log("given-up-requests(%s)@%d", id, who)
				run.Count("requests_under_an_ended_context", 1)
				if len(idents) > 0 {
					var names []string
					for n := range idents {
						names = append(names, n)
					}
					sort.Strings(names)
					name := names[rng.Intn(len(names))]
					_, _ = idp.CreateIdentity(done, &idp.CreateIdentityOptions{Keystore: inst[who], ID: name, Type: "orbitdb"})
					log("given-up-identity(%s)@%d", name, who)
					again, err := idp.CreateIdentity(ctx, &idp.CreateIdentityOptions{Keystore: inst[rng.Intn(len(inst))], ID: name, Type: "orbitdb"})
					if err != nil {
						run.Violate("C20/createidentity-error", det("after", "given-up request"), wit(), "CreateIdentity(%q) failed after a given-up request for it: %v", name, err)
					} else if f := identityDiff(idents[name], again); f != "" {
						run.Violate("C20/identity-unstable", det("field", f, "after", "given-up request"), wit(), "after an identity creation under an ended context, creating the identity %q again gave a different %s", name, f)
					}
				}
				for w := range inst {
					probe(id, w)
				}
			case x < 60 && len(ids) > 0:
				id := ids[rng.Intn(len(ids))]
				if rng.Intn(3) == 0 {
					id = ids[0] // the oldest: most likely evicted
				}
				log("probe(%s)@%d", id, who)
				probe(id, who)
			case x < 68:
				id := fmt.Sprintf("never-%d-%d", i, op)
				log("probe(%s)@%d", id, who)
				probe(id, who)
			case x < 76:
				// "restart": a fresh instance over the same datastore
				k := newKS()
				restarts++
				if len(inst) < 4 {
					inst = append(inst, k)
					who = len(inst) - 1
				} else {
					inst[who] = k
				}
				log("restart@%d", who)
				if len(ids) > 0 {
					probe(ids[rng.Intn(len(ids))], who)
					probe(ids[0], who)
				}
			default:
				// identity creation: twice, possibly on different instances
				name := fmt.Sprintf("user-%d-%d", i, rng.Intn(6))
				if len(identNames) > 0 && rng.Intn(6) == 0 {
					// an id that LOOKS like an identity id and names a key the keystore holds: the id of an earlier identity,
					// fed back in as an id (an identity derived from an identity)
					name = idents[identNames[rng.Intn(len(identNames))]].ID
					run.Count("identities_named_like_an_earlier_identity_id", 1)
				}
				a, err1 := idp.CreateIdentity(ctx, &idp.CreateIdentityOptions{Keystore: inst[who], ID: name, Type: "orbitdb"})
				who2 := rng.Intn(len(inst))
				b, err2 := idp.CreateIdentity(ctx, &idp.CreateIdentityOptions{Keystore: inst[who2], ID: name, Type: "orbitdb"})
				log("identity(%s)@%d,@%d", name, who, who2)
				run.Count("identities_created_twice", 1)
				if err1 != nil || err2 != nil {
					run.Violate("C20/createidentity-error", det(), wit(), "CreateIdentity failed: %v / %v", err1, err2)
					continue
				}
				if f := identityDiff(a, b); f != "" {
					run.Violate("C20/identity-unstable", det("field", f), wit(), "creating the identity %q twice gave different %s", name, f)
				}
				if first, ok := idents[name]; !ok {
					idents[name] = a
					identNames = append(identNames, name)
				} else if f := identityDiff(first, a); f != "" {
					run.Violate("C20/identity-unstable", det("field", f, "after", "earlier creation in this sequence"), wit(), "creating the identity %q again later in the sequence gave a different %s", name, f)
				}
				// the keys it created are keys "once created" too
				for _, kid := range []string{name, a.ID} {
					if _, ok := ref[kid]; !ok {
						if p, err := inst[who].GetKey(ctx, kid); err == nil {
							ref[kid] = rawKey(p)
						}
					}
				}
				checkIdentity(run, a, name, wit)
				// a log that CHANGES its identity must not touch the identity object it was opened with (other logs and
				// the application hold the same object)
				if rng.Intn(3) == 0 {
					snap := *a
					sigs := *a.Signatures
					snap.Signatures = &sigs
					snap.PublicKey = append([]byte(nil), a.PublicKey...)
					other, oerr := idp.CreateIdentity(ctx, &idp.CreateIdentityOptions{Keystore: inst[who], ID: name + "-other", Type: "orbitdb"})
					st := store.New()
					l1, e1 := ipfslog.NewLog(st.API(), a, &ipfslog.LogOptions{ID: "c20-setidentity"})
					l2, e2 := ipfslog.NewLog(st.API(), a, &ipfslog.LogOptions{ID: "c20-setidentity"})
					if oerr == nil && e1 == nil && e2 == nil {
						_, _ = l1.Append(ctx, []byte("before"), nil)
						l1.SetIdentity(other)
						_, _ = l1.Append(ctx, []byte("after"), nil)
						run.Count("identity_changes_on_a_log_sharing_its_identity_object", 1)
						if f := identityDiff(&snap, a); f != "" {
							run.Violate("C20/identity-unstable", det("field", f, "after", "SetIdentity on a log opened with it"), wit(), "the identity object %q changed its %s after a log opened with it switched to another identity", name, f)
						}
						if again, err := idp.CreateIdentity(ctx, &idp.CreateIdentityOptions{Keystore: inst[who], ID: name, Type: "orbitdb"}); err == nil {
							if f := identityDiff(&snap, again); f != "" {
								run.Violate("C20/identity-unstable", det("field", f, "after", "SetIdentity on a log opened with it"), wit(), "creating the identity %q again gave a different %s after a log switched identities", name, f)
							}
						}
						if e, err := l2.Append(ctx, []byte("other log, same identity object"), nil); err == nil {
							if !bytes.Equal(e.GetKey(), snap.PublicKey) {
								run.Violate("C20/entry-key", det("after", "SetIdentity on another log sharing the identity object"), wit(), "an entry appended to a log opened with identity %q does not carry that identity's published key after ANOTHER log switched identities", name)
							}
						}
					}
				}
				// an entry signed with it verifies under the published key bytes
				e, err := entry.CreateEntry(ctx, store.New().API(), a, &entry.Entry{LogID: "c20", Payload: []byte(fmt.Sprintf("p-%d-%d", i, op))}, nil)
				if err != nil {
					run.Violate("C20/sign-entry", det(), wit(), "signing an entry with identity %q failed: %v", name, err)
					continue
				}
				if !bytes.Equal(e.GetKey(), a.PublicKey) {
					run.Violate("C20/entry-key", det(), wit(), "entry key is not the identity's published public key")
				}
				if err := e.Verify(b.Provider, hx.InitIO()); err != nil {
					run.Violate("C20/entry-verify", det(), wit(), "entry signed with identity %q does not verify under the published key: %v", name, err)
				}
				run.Count("entries_signed_and_verified", 1)
				// one provider object serving SEVERAL identities of its keystore: the identity of another writer, as a reader
				// gets it (decoded from that writer's entry with THIS identity's provider), signs with its own key
				if prevIdent != nil && prevIdent.ID != a.ID {
					st2 := store.New()
					if pe, err := entry.CreateEntry(ctx, st2.API(), prevIdent, &entry.Entry{LogID: "c20", Payload: []byte("by the earlier writer")}, nil); err == nil {
						if rb, err := entry.FromMultihash(ctx, st2.API(), pe.GetHash(), a.Provider); err == nil && rb.GetIdentity() != nil {
							other := rb.GetIdentity() // carries a.Provider, which has already signed for `a`
							oe, err := entry.CreateEntry(ctx, st2.API(), other, &entry.Entry{LogID: "c20", Payload: []byte(fmt.Sprintf("second identity through one provider %d-%d", i, op))}, nil)
							run.Count("entries_signed_for_a_second_identity_through_one_provider", 1)
							if err != nil {
								run.Violate("C20/sign-entry", det("provider", "shared by two identities"), wit(), "signing for a second identity through a provider that signed for another one before failed: %v", err)
							} else if !bytes.Equal(oe.GetKey(), prevIdent.PublicKey) || oe.Verify(a.Provider, hx.InitIO()) != nil {
								run.Violate("C20/entry-verify", det("provider", "shared by two identities"), wit(), "an entry signed for identity %s through the provider object that had signed for %s before does not verify under the published key of %s", hx.Short(prevIdent.ID), hx.Short(a.ID), hx.Short(prevIdent.ID))
							}
						}
					}
				}
				prevIdent = a
				// the identity a READER gets (decoded from the stored entry) is the same identity and is self-consistent too
				for _, codec := range []string{"cbor", "link"} {
					st := store.New()
					io := hx.IO(codec)
					we, err := entry.CreateEntryWithIO(ctx, st.API(), a, &entry.Entry{LogID: "c20", Payload: []byte(fmt.Sprintf("r-%d-%d", i, op)), Next: []cid.Cid{e.GetHash()}}, nil, io)
					if err != nil {
						run.Violate("C20/sign-entry", det("codec", codec), wit(), "signing an entry with identity %q failed: %v", name, err)
						continue
					}
					back, err := entry.FromMultihashWithIO(ctx, st.API(), we.GetHash(), a.Provider, io)
					if err != nil || back == nil || back.GetIdentity() == nil {
						run.Violate("C20/read-back-identity", det("codec", codec), wit(), "reading back an entry signed with identity %q failed or carries no identity: %v", name, err)
						continue
					}
					if f := identityDiff(a, back.GetIdentity()); f != "" {
						run.Violate("C20/read-back-identity", det("codec", codec, "field", f), wit(), "the identity carried by an entry read back from storage differs from the identity %q that signed it in: %s", name, f)
					}
					checkIdentity(run, back.GetIdentity(), name+" (read back, "+codec+")", wit)
					if err := back.Verify(a.Provider, io); err != nil {
						run.Violate("C20/entry-verify", det("codec", codec, "read_back", true), wit(), "entry signed with identity %q and read back does not verify: %v", name, err)
					}
					run.Count("identities_read_back_from_stored_entries", 1)
				}
			}
		}
		// final sweep: every created id on every instance and on a fresh one
		inst = append(inst, newKS())
		for _, id := range ids {
			for w := range inst {
				probe(id, w)
			}
		}
		run.Eval(1)
		run.Count("datastore_gets", int(d.gets))
		run.Count("datastore_puts", int(d.puts))
		if len(ids) > 128 {
			atomic.AddInt64(&anyEvict, 1)
			run.Count("sequences_beyond_cache_capacity", 1)
		}
		if len(ids) > 128 || len(inst) > 2 {
			run.NonTrivial(fmt.Sprintf("ids%d/inst%d/restarts%d", bucket(len(ids)/8), len(inst), bucket(restarts)))
		}
		if i < 2 || run.NumSamples() < 2 {
			run.Sample(wit())
		}
	})
	c20SlowRead(run)
	c20RetryAfterFailedCreation(run)
	// concurrent use of shared keystore instances on distinct ids, under the race detector
	RunChildren(run, ChildOpts{Key: "C20race", Batches: pick(run.Tier, 2, 8), Race: true, RaceInScope: func(rep string) bool { return true }})
}

// slowDS answers the FIRST read of one key late: the answer is computed at once (so it reflects the state at that
// moment) but handed back only after release.
type slowDS struct {
	ds.Datastore
	mu      sync.Mutex
	key     ds.Key
	armed   bool
	parked  chan struct{}
	release chan struct{}
}

func (c *slowDS) park(k ds.Key) {
	c.mu.Lock()
	hit := c.armed && k == c.key
	if hit {
		c.armed = false
	}
	c.mu.Unlock()
	if hit {
		close(c.parked)
		<-c.release
	}
}

func (c *slowDS) Get(ctx context.Context, k ds.Key) ([]byte, error) {
	v, err := c.Datastore.Get(ctx, k)
	c.park(k)
	return v, err
}

func (c *slowDS) Has(ctx context.Context, k ds.Key) (bool, error) {
	v, err := c.Datastore.Has(ctx, k)
	c.park(k)
	return v, err
}

func (c *slowDS) GetSize(ctx context.Context, k ds.Key) (int, error) {
	v, err := c.Datastore.GetSize(ctx, k)
	c.park(k)
	return v, err
}

// c20SlowRead: three parties. A read of an id is under way on one keystore (its datastore answer - "not there" - is
// late); the key is created through ANOTHER keystore over the same datastore; a request that STARTS after the
// creation returned must see the key, whatever the old read is doing.
func c20SlowRead(run *evid.Run) {
	ctx := context.Background()
	n := pick(run.Tier, 24, 200)
	for i := 0; i < n; i++ {
		firstOp, laterOp := []string{"HasKey", "GetKey"}[i%2], []string{"HasKey", "GetKey"}[(i/2)%2]
		sameInstance := (i/4)%3 != 2 // the later request on the instance with the pending read (2 of 3) or on a third instance
		id := fmt.Sprintf("slow-%d-%d", run.Seed, i)
		d := &slowDS{Datastore: dssync.MutexWrap(ds.NewMapDatastore()), key: ds.NewKey(id), armed: true, parked: make(chan struct{}), release: make(chan struct{})}
		k1, _ := keystore.NewKeystore(d)
		k2, _ := keystore.NewKeystore(d)
		k3, _ := keystore.NewKeystore(d)
		wit := func() map[string]any {
			return map[string]any{"id": id, "pending_read": firstOp, "later_request": laterOp, "later_request_on_the_instance_with_the_pending_read": sameInstance}
		}
		ask := func(k *keystore.Keystore, op string) (bool, []byte) {
			if op == "HasKey" {
				has, _ := k.HasKey(ctx, id)
				return has, nil
			}
			p, err := k.GetKey(ctx, id)
			if err != nil || p == nil {
				return false, nil
			}
			return true, rawKey(p)
		}
		aDone := make(chan struct{})
		go func() { defer close(aDone); ask(k1, firstOp) }()
		select {
		case <-d.parked:
		case <-time.After(20 * time.Second):
			run.Inconclusive("C20 slow-read scenario: the first read never reached the datastore")
			close(d.release)
			<-aDone
			continue
		}
		created, err := k2.CreateKey(ctx, id)
		if err != nil {
			run.Violate("C20/createkey-error", det(), wit(), "CreateKey failed: %v", err)
			close(d.release)
			<-aDone
			continue
		}
		type ans struct {
			has bool
			raw []byte
		}
		cDone := make(chan ans, 1)
		target := k1
		if !sameInstance {
			target = k3
		}
		go func() { h, r := ask(target, laterOp); cDone <- ans{h, r} }()
		var got ans
		waited := false
		select {
		case got = <-cDone:
		case <-time.After(300 * time.Millisecond):
			// the later request is waiting for the old read: let that one finish, then look at the answer
			waited = true
			close(d.release)
			got = <-cDone
		}
		if !waited {
			close(d.release)
		}
		<-aDone
		run.Count("requests_started_after_a_creation_that_overtook_a_pending_read", 1)
		dd := det("pending_read", firstOp, "later_request", laterOp, "same_instance", sameInstance)
		if !got.has {
			run.Violate("C20/haskey-false-for-created", dd, wit(), "%s(%q), started after CreateKey on another keystore over the same datastore had returned, reports the key absent (a read of the same id that began BEFORE the creation was still pending)", laterOp, id)
		} else if laterOp == "GetKey" && !bytes.Equal(got.raw, rawKey(created)) {
			run.Violate("C20/getkey-different", dd, wit(), "GetKey(%q) after the creation returns another key", id)
		}
		run.Eval(1)
		run.NonTrivial(fmt.Sprintf("slow-read/%s/%s/%v", firstOp, laterOp, sameInstance))
	}
}

// c20RetryAfterFailedCreation: the application keeps ONE options value; the n-th datastore write of the first
// CreateIdentity fails, the application tries again with the same value. What it gets must be the identity that fresh
// options (and a keystore opened afterwards) give for that id.
func c20RetryAfterFailedCreation(run *evid.Run) {
	ctx := context.Background()
	n := pick(run.Tier, 30, 300)
	for i := 0; i < n; i++ {
		failAt := int64(1 + i%3)
		name := fmt.Sprintf("retry-%d-%d", run.Seed, i)
		d := &countingDS{Datastore: dssync.MutexWrap(ds.NewMapDatastore())}
		var puts int64
		d.failPut = func(k ds.Key) bool { return atomic.AddInt64(&puts, 1) == failAt }
		ks, _ := keystore.NewKeystore(d)
		opts := &idp.CreateIdentityOptions{Keystore: ks, ID: name, Type: "orbitdb"}
		wit := func() map[string]any { return map[string]any{"id": name, "failing_datastore_write": failAt} }
		first, err := idp.CreateIdentity(ctx, opts)
		var got *idp.Identity
		if err != nil {
			run.Count("identity_creations_that_failed_at_an_injected_write_and_were_retried", 1)
			got, err = idp.CreateIdentity(ctx, opts)
			if err != nil {
				run.Violate("C20/identity-retry-error", det("failing_write", failAt), wit(), "the retry of CreateIdentity(%q) with the same options failed: %v", name, err)
				continue
			}
		} else {
			got = first
		}
		ks2, _ := keystore.NewKeystore(d)
		refID, err := idp.CreateIdentity(ctx, &idp.CreateIdentityOptions{Keystore: ks2, ID: name, Type: "orbitdb"})
		if err != nil {
			run.Violate("C20/identity-retry-error", det("failing_write", failAt), wit(), "CreateIdentity(%q) on a keystore opened afterwards failed: %v", name, err)
			continue
		}
		if df := identityDiff(got, refID); df != "" {
			run.Violate("C20/identity-differs", det("failing_write", failAt, "after", "retry with the same options value"), wit(), "the identity obtained for %q by retrying with the same options value differs from the one fresh options give: %s", name, df)
		}
		checkIdentity(run, got, name, wit)
		run.Eval(1)
		run.NonTrivial(fmt.Sprintf("retry/%d", failAt))
	}
}

func init() {
	childFns["C20race"] = func(run *evid.Run, batch, nb int, j *Journal) {
		ctx := context.Background()
		d := &countingDS{Datastore: dssync.MutexWrap(ds.NewMapDatastore())}
		ks1, _ := keystore.NewKeystore(d)
		ks2, _ := keystore.NewKeystore(d)
		var wg sync.WaitGroup
		for g := 0; g < 8; g++ {
			wg.Add(1)
			go func(g int) {
				defer wg.Done()
				k := ks1
				if g%2 == 1 {
					k = ks2
				}
				for n := 0; n < 60; n++ {
					id := fmt.Sprintf("c-%d-%d-%d", batch, g, n)
					p, err := k.CreateKey(ctx, id)
					if err != nil {
						run.Violate("C20/createkey-error", det(), nil, "CreateKey failed: %v", err)
						continue
					}
					for _, kk := range []*keystore.Keystore{ks1, ks2} {
						q, err := kk.GetKey(ctx, id)
						if err != nil || !bytes.Equal(rawKey(q), rawKey(p)) {
							run.Violate("C20/getkey-different", det("concurrent", true), map[string]any{"id": id}, "concurrent use: GetKey(%q) differs or fails: %v", id, err)
						}
						if has, _ := kk.HasKey(ctx, id); !has {
							run.Violate("C20/haskey-false-for-created", det("concurrent", true), map[string]any{"id": id}, "concurrent use: HasKey(%q) false", id)
						}
					}
					run.Count("concurrent_ops", 1)
				}
				// hot loop: every goroutine keeps asking both instances for ITS OWN keys while the others ask for theirs
				for n := 0; n < 3000; n++ {
					id := fmt.Sprintf("c-%d-%d-%d", batch, g, n%60)
					want, _ := ks1.GetKey(ctx, id)
					got, err := k.GetKey(ctx, id)
					if err != nil || want == nil || !bytes.Equal(rawKey(got), rawKey(want)) {
						// (want itself is read concurrently; a stable reference is the key the datastore holds)
						fresh, _ := keystore.NewKeystore(d)
						ref, rerr := fresh.GetKey(ctx, id)
						if rerr == nil && (err != nil || !bytes.Equal(rawKey(got), rawKey(ref))) {
							run.Violate("C20/getkey-different", det("concurrent", true), map[string]any{"id": id}, "concurrent use: GetKey(%q) returned another key than the one stored for that id (err %v)", id, err)
							return
						}
					}
				}
				run.Count("concurrent_hot_loop_gets", 3000)
			}(g)
		}
		wg.Wait()
		run.Eval(1)
	}
}
