package mon

import (
	"bytes"
	"context"
	"crypto/sha256"
	"encoding/hex"
	"fmt"
	"math"
	"math/rand"
	"sort"
	"strings"

	ipfslog "berty.tech/go-ipfs-log"
	"berty.tech/go-ipfs-log/entry"
	idp "berty.tech/go-ipfs-log/identityprovider"
	"berty.tech/go-ipfs-log/iface"
	"berty.tech/go-ipfs-log/keystore"
	"github.com/ipfs/go-cid"
	ds "github.com/ipfs/go-datastore"
	dssync "github.com/ipfs/go-datastore/sync"
	"github.com/multiformats/go-multibase"

	"verifharness/evid"
	"verifharness/hx"
	"verifharness/store"
)

func mustHex(s string) []byte {
	b, err := hex.DecodeString(s)
	if err != nil {
		panic(err)
	}
	return b
}

func mustCid(s string) cid.Cid {
	c, err := cid.Decode(s)
	if err != nil {
		panic(err)
	}
	return c
}

func b32(s string) string { return mustCid(s).Encode(multibase.MustNewEncoder(multibase.Base32)) }

// key material pinned in the repository's own suite (test/utils.go)
var suiteKeys = map[string]string{
	"userA": "0a135ce157a9ccb8375c2fae0d472f1eade4b40b37704c02df923b78ca03c627",
	"userB": "855f70d3b5224e5af76c23db0792339ca8d968a5a802ff0c5b54d674ef01aaad",
	"userC": "291d4dc915d81e9ebe5627c3f5e7309e819e721ee75e63286baa913497d61c78",
	"userD": "faa2d697318a6f8daeb8f4189fc657e7ae1b24e18c91c3bb9b95ad3c0cc050f8",
	"02a38336e3a47f545a172c9f77674525471ebeda7d6c86140e7a778f67ded92260": "7c6140e9ae4c70eb11600b3d550cc6aac45511b5a660f4e75fe9a7c4e6d1c7b7",
	"03e0480538c2a39951d054e17ff31fde487cb1031d0044a037b53ad2e028a3e77c": "97f64ca2bf7bd6aa2136eb0aa3ce512433bd903b91d48b2208052d6ff286d080",
	"032f7b6ef0432b572b45fcaf27e7f6757cd4123ff5c5266365bec82129b8c5f214": "2b487a932233c8691024c951faaeac207be161797bdda7bd934c0125012a5551",
	"0358df8eb5def772917748fdf8a8b146581ad2041eae48d66cc6865f11783499a6": "1cd65d23d72932f5ca2328988d19a5b11fbab1f4c921ef2471768f1773bd56de",
}

func suiteIdentity(name string) *idp.Identity {
	d := dssync.MutexWrap(ds.NewMapDatastore())
	for k, v := range suiteKeys {
		_ = d.Put(context.Background(), ds.NewKey(k), mustHex(v))
	}
	ks, err := keystore.NewKeystore(d)
	if err != nil {
		panic(err)
	}
	id, err := idp.CreateIdentity(context.Background(), &idp.CreateIdentityOptions{Keystore: ks, ID: name, Type: "orbitdb"})
	if err != nil {
		panic(err)
	}
	return id
}

func entryFieldsDiff(a, b iface.IPFSLogEntry, withHash bool) string {
	eqC := func(x, y []cid.Cid) bool {
		if len(x) != len(y) {
			return false
		}
		for i := range x {
			if !x[i].Equals(y[i]) {
				return false
			}
		}
		return true
	}
	switch {
	case !bytes.Equal(a.GetPayload(), b.GetPayload()):
		return "payload"
	case a.GetLogID() != b.GetLogID():
		return "log id"
	case !eqC(a.GetNext(), b.GetNext()):
		return "next"
	case !eqC(a.GetRefs(), b.GetRefs()):
		return "refs"
	case a.GetV() != b.GetV():
		return "v"
	case !bytes.Equal(a.GetKey(), b.GetKey()):
		return "key"
	case !bytes.Equal(a.GetSig(), b.GetSig()):
		return "sig"
	case withHash && !a.GetHash().Equals(b.GetHash()):
		return "hash"
	}
	ca, cb := a.GetClock(), b.GetClock()
	if (ca == nil) != (cb == nil) {
		return "clock"
	}
	if ca != nil && (!bytes.Equal(ca.GetID(), cb.GetID()) || ca.GetTime() != cb.GetTime()) {
		return "clock"
	}
	ia, ib := a.GetIdentity(), b.GetIdentity()
	if (ia == nil) != (ib == nil) {
		return "identity"
	}
	if ia != nil {
		if ia.ID != ib.ID || ia.Type != ib.Type || !bytes.Equal(ia.PublicKey, ib.PublicKey) {
			return "identity"
		}
		if (ia.Signatures == nil) != (ib.Signatures == nil) {
			return "identity.signatures"
		}
		if ia.Signatures != nil && (!bytes.Equal(ia.Signatures.ID, ib.Signatures.ID) || !bytes.Equal(ia.Signatures.PublicKey, ib.Signatures.PublicKey)) {
			return "identity.signatures"
		}
	}
	return ""
}

// c08Corpus builds the seeded corpus and returns, per item, a label and the CID(s)
// it encoded to; all round-trip checks run on the way. It is a pure function of (seed, n).
func c08Corpus(run *evid.Run, seed int64, n int, checkAll bool) []string {
	return c08CorpusRange(run, seed, 0, n, checkAll)
}

func c08CorpusRange(run *evid.Run, seed int64, from, to int, checkAll bool) []string {
	ctx := context.Background()
	var out []string
	clockTimes := []int{0, 1, 2, 1 << 31, 1 << 53, math.MaxInt64}
	for i := from; i < to; i++ {
		rng := rand.New(rand.NewSource(seed*15485863 + int64(i)))
		codec := []string{"cbor", "cbor", "cbor", "link"}[i%4]
		w := hx.NewWorld(seed, 3, fmt.Sprintf("c08-%d", i), "hash", codec)
		io := w.IOv()
		ident := w.Idents[rng.Intn(3)]
		if i%7 == 5 {
			// a second RECORD of the same writer: same id, type and public key, other signature bytes (a re-signed or
			// re-encoded identity record); what is decoded must be the record that was stored, whatever the process has
			// decoded before
			c := *ident
			sg := *ident.Signatures
			sg.ID = append([]byte(nil), sg.ID...)
			sg.PublicKey = append([]byte(nil), sg.PublicKey...)
			sg.PublicKey[len(sg.PublicKey)-1] ^= byte(1 + i%250)
			if i%2 == 0 {
				sg.ID[len(sg.ID)/2] ^= 0x40
			}
			c.Signatures = &sg
			ident = &c
			run.Count("entries_with_a_second_record_of_a_writers_identity", 1)
		}
		class := payloadClasses[rng.Intn(len(payloadClasses))]
		if class == "big" && rng.Intn(5) != 0 {
			class = "binary"
		}
		payload := classPayload(class, fmt.Sprintf("%d/%d", seed, i), rng)
		nn, nr := rng.Intn(17), rng.Intn(17)
		if rng.Intn(4) == 0 {
			nn = 0
		}
		if rng.Intn(3) == 0 {
			nr = 0
		}
		var next, refs []cid.Cid
		for k := 0; k < nn; k++ {
			next = append(next, foreignCid(fmt.Sprintf("n%d.%d.%d", seed, i, k)))
		}
		for k := 0; k < nr; k++ {
			refs = append(refs, foreignCid(fmt.Sprintf("r%d.%d.%d", seed, i, k)))
		}
		// a tenth of the items name some links more than once (the constructor keeps the first occurrence of each)
		repeated := false
		if i%10 == 7 && nn >= 3 {
			next = append(next, next[0], next[2], next[1], next[0])
			repeated = true
		}
		if i%10 == 7 && nr >= 2 {
			refs = append([]cid.Cid{refs[1]}, append(refs, refs[0])...)
			repeated = true
		}
		ct := clockTimes[rng.Intn(len(clockTimes))]
		var clk *entry.LamportClock
		switch rng.Intn(4) {
		case 0: // default clock (writer key, time 0)
		case 1:
			clk = entry.NewLamportClock(ident.PublicKey, ct)
		default:
			idl := 1 + rng.Intn(65)
			idb := make([]byte, idl)
			rng.Read(idb)
			clk = entry.NewLamportClock(idb, ct)
		}
		label := fmt.Sprintf("#%d codec=%s class=%s next=%d refs=%d clock=%v", i, codec, class, nn, nr, clk != nil)
		wit := func() map[string]any {
			return map[string]any{"item": label, "payload_hex": fmt.Sprintf("%x", clip(payload, 64)), "seed": seed}
		}
		src := &entry.Entry{LogID: w.LogID, Payload: payload, Next: next, Refs: refs}
		if clk != nil {
			src.Clock = clk
		}
		if i%3 == 1 {
			// the codec instance has been asked before for an entry it cannot write (an undefined identifier among the
			// links): whatever that call returned, it must leave nothing behind that the next entry picks up
			bad := &entry.Entry{LogID: w.LogID, Payload: []byte("not-writable"), Next: append(append([]cid.Cid(nil), next...), cid.Undef), Refs: append([]cid.Cid{cid.Undef}, refs...)}
			if _, err := entry.CreateEntryWithIO(ctx, store.New().API(), ident, bad, nil, io); err != nil {
				run.Count("refused_creations_before_the_item_"+codec, 1)
			} else {
				run.Count("accepted_creations_with_an_undefined_link_before_the_item_"+codec, 1)
			}
		}
		created, err := entry.CreateEntryWithIO(ctx, w.Store.API(), ident, src, nil, io)
		if err != nil {
			run.Violate("C08/create-error", det("codec", codec, "class", class), wit(), "CreateEntryWithIO failed: %v", err)
			continue
		}
		out = append(out, label+" -> "+created.GetHash().String())
		run.Count("entries_"+codec, 1)
		if repeated {
			// the same logical entry, created again from the same input, must get the same identifier and link order
			run.Count("entries_with_repeated_links", 1)
			for rep := 0; rep < 6; rep++ {
				again, err := entry.CreateEntryWithIO(ctx, store.New().API(), ident, &entry.Entry{LogID: w.LogID, Payload: payload, Next: next, Refs: refs, Clock: src.Clock}, nil, io)
				if err != nil || !again.GetHash().Equals(created.GetHash()) {
					run.Violate("C08/nondeterministic", det("class", class, "repeated_links", true), wit(), "creating the same entry (link lists with repeated elements) again gave %v (err %v), first time %v", hashOf(again), err, created.GetHash())
					break
				}
			}
		}
		if !checkAll {
			continue
		}
		// read back
		back, err := entry.FromMultihashWithIO(ctx, w.Store.API(), created.GetHash(), ident.Provider, io)
		if err != nil {
			run.Violate("C08/read-back-error", det("codec", codec, "class", class), wit(), "reading back a written entry failed: %v", err)
			continue
		}
		if f := entryFieldsDiff(created, back, true); f != "" {
			run.Violate("C08/read-back-differs", det("codec", codec, "field", f, "class", class), wit(), "written and read-back entry differ in %s (%s)", f, label)
		}
		if codec == "link" {
			// storing the DECODED entry again through the keyed codec gives the block it came from: same identifier, and
			// what is read back from it has the same fields (the writer's key among them)
			s3 := store.New()
			c2, err := entry.ToMultihashWithIO(ctx, back, s3.API(), nil, io)
			if err != nil || !c2.Equals(created.GetHash()) {
				run.Violate("C08/reencode-differs", det("class", class, "codec", codec), wit(), "storing the decoded entry again (link key) gave %v (err %v), original %v", c2, err, created.GetHash())
			} else if again, err := entry.FromMultihashWithIO(ctx, s3.API(), c2, ident.Provider, io); err != nil {
				run.Violate("C08/read-back-error", det("codec", codec, "class", class, "stored_again", true), wit(), "reading back an entry that was stored again failed: %v", err)
			} else if f := entryFieldsDiff(created, again, true); f != "" {
				run.Violate("C08/read-back-differs", det("codec", codec, "field", f, "class", class, "stored_again", true), wit(), "an entry stored again and read back differs in %s (%s)", f, label)
			}
			run.Count("reencode_checks_link", 1)
		}
		if codec == "cbor" {
			// re-encoding the decoded entry gives the same identifier
			c2, err := entry.ToMultihashWithIO(ctx, back, w.Store.API(), nil, io)
			if err != nil || !c2.Equals(created.GetHash()) {
				run.Violate("C08/reencode-differs", det("class", class), wit(), "re-encoding the decoded entry gave %v (err %v), original %v", c2, err, created.GetHash())
			}
			// repeated encoding on a fresh store, and of a deep copy
			s2 := store.New()
			c3, err := entry.ToMultihashWithIO(ctx, cloneEntry(created), s2.API(), nil, io)
			if err != nil || !c3.Equals(created.GetHash()) {
				run.Violate("C08/nondeterministic", det("class", class), wit(), "encoding a copy of the same entry gave %v, original %v", c3, created.GetHash())
			}
			// the identifier is the hash of the stored bytes
			if raw, ok := w.Store.Raw(created.GetHash()); ok {
				if sum, err := created.GetHash().Prefix().Sum(raw); err != nil || !sum.Equals(created.GetHash()) {
					run.Violate("C08/cid-not-content-hash", det("class", class), wit(), "identifier is not the hash of the stored block")
				}
			}
			run.Count("reencode_checks", 1)
		}
		if nn+nr > 0 || class != "ascii" || clk != nil {
			run.NonTrivial(fmt.Sprintf("%s/%s/n%d/r%d/t%d/c%v", codec, class, bucket(nn), bucket(nr), ct%7, clk != nil))
		}
		if i < 2 || run.NumSamples() < 2 {
			run.Sample(map[string]any{"item": label, "cid": created.GetHash().String()})
		}
	}
	return out
}

func c08Manifests(run *evid.Run, seed int64, n int) []string {
	var out []string
	ctx := context.Background()
	for i := 0; i < n; i++ {
		rng := rand.New(rand.NewSource(seed*32452843 + int64(i)))
		w := hx.NewWorld(seed, 1, fmt.Sprintf("c08m-%d", i), "hash", "cbor")
		nh := 1 + rng.Intn(32)
		var heads []cid.Cid
		for k := 0; k < nh; k++ {
			heads = append(heads, foreignCid(fmt.Sprintf("m%d.%d.%d", seed, i, k)))
		}
		j := &iface.JSONLog{ID: w.LogID, Heads: heads}
		c1, err := w.IOv().Write(ctx, w.Store.API(), j, nil)
		if err != nil {
			run.Violate("C08/manifest-write", det(), nil, "manifest write failed: %v", err)
			continue
		}
		// same manifest, fresh value, fresh store
		j2 := &iface.JSONLog{ID: w.LogID, Heads: append([]cid.Cid(nil), heads...)}
		c2, _ := w.IOv().Write(ctx, store.New().API(), j2, nil)
		if !c1.Equals(c2) {
			run.Violate("C08/manifest-nondeterministic", det(), map[string]any{"heads": nh}, "same manifest encoded to %v and %v", c1, c2)
		}
		node, err := w.IOv().Read(ctx, w.Store.API(), c1)
		if err == nil {
			var dec *iface.JSONLog
			dec, err = w.IOv().DecodeRawJSONLog(node)
			if err == nil && (dec.ID != j.ID || !model_eqCids(dec.Heads, heads)) {
				run.Violate("C08/manifest-read-back", det(), map[string]any{"heads": nh}, "manifest read back differs")
			}
		}
		if err != nil {
			run.Violate("C08/manifest-read-back", det(), map[string]any{"heads": nh}, "manifest read back failed: %v", err)
		}
		out = append(out, fmt.Sprintf("manifest#%d heads=%d -> %s", i, nh, c1))
		run.Count("manifests", 1)
		run.NonTrivial(fmt.Sprintf("manifest/h%d", nh))
	}
	return out
}

// c08ViaLoaders: "reading it back" also means through the log loaders: entries written by a small log (both
// codecs, references present) are read back through the manifest and the entry-hash loaders with the same codec
// and compared field by field with what was written.
func c08ViaLoaders(run *evid.Run, n int) {
	parallel(n, func(i int) {
		codec := []string{"link", "cbor", "link2"}[i%3]
		w := hx.NewWorld(run.Seed, 2, fmt.Sprintf("c08l-%d", i), "hash", codec)
		// link codecs: the codec is built from a buffer the application wipes later, after some entries were written
		var wipe func()
		if codec != "cbor" && i%2 == 0 {
			var lio iface.IO
			lio, wipe = hx.LateWipeLinkIO(map[string]int{"link": 1, "link2": 2}[codec])
			w.SetIO(lio)
			run.Count("logs_written_with_a_key_buffer_wiped_midway", 1)
		}
		l := w.NewLog(i % 2)
		if i%5 == 3 {
			// a writer whose identity id was not minted by the built-in provider (the id is an opaque string)
			cid := []string{"0xAbCdEf0123456789", "did:key:z6MkhaXgBZDvotDkL5257faiztiGiC2QtKLGpbnnEGta2doK", "ABCDEF0123", "user@example.org/device 1", "ünïcode-id"}[(i/5)%5]
			if nl, err := ipfslog.NewLog(w.Store.API(), w.CustomIdentity(cid), w.LogOpts(w.LogID)); err == nil {
				l = nl
				run.Count("logs_written_by_an_identity_with_an_application_chosen_id", 1)
			}
		}
		written := map[string]iface.IPFSLogEntry{}
		for k := 0; k < 4+i%7; k++ {
			if wipe != nil && k == 2 {
				wipe()
			}
			if i%4 == 1 && k == 3 {
				// the writer changes in mid-life: what was written before stays what it was
				l.SetIdentity(w.Idents[(i+1)%2])
				run.Count("logs_with_an_identity_change_midway", 1)
			}
			pin := (i+k)%3 == 0 // the harness pin service accepts any identifier
			if pin {
				run.Count("pinned_appends", 1)
			}
			e, err := l.Append(w.Ctx, classPayload(payloadClasses[(i+k)%len(payloadClasses)], fmt.Sprintf("%d/%d/%d", run.Seed, i, k), rand.New(rand.NewSource(int64(i*100+k)))), &iface.AppendOptions{PointerCount: 1 << uint(k%5), Pin: pin})
			if err != nil {
				run.Violate("C08/create-error", det("codec", codec), nil, "append failed: %v", err)
				return
			}
			written[e.GetHash().String()] = e
		}
		// the entry objects the log holds keep encoding to their identifier - also after logs configured with
		// ANOTHER codec tried to merge this log (and were merged into): verification by a foreign codec must not
		// leave anything behind in the entries
		reencode := func(when string) {
			for hsh, e := range written {
				c, err := entry.ToMultihashWithIO(w.Ctx, e, store.New().API(), nil, w.IOv())
				run.Count("reencode_checks_of_held_objects", 1)
				if err != nil || c.String() != hsh {
					run.Violate("C08/reencode-differs", det("codec", codec, "when", when), map[string]any{"case": i, "entry": hsh, "when": when, "next": len(e.GetNext()), "refs": len(e.GetRefs())},
						"an entry the log holds no longer encodes to its identifier %s: %s gives %v (err %v), codec %s", when, hx.Short(hsh), c, err, codec)
					return
				}
			}
		}
		reencode("right after the appends")
		for _, oc := range []string{"cbor", "link", "link2"} {
			if oc == codec {
				continue
			}
			lo := w.LogOpts(w.LogID)
			lo.IO = hx.IO(oc)
			if foreign, err := ipfslog.NewLog(w.Store.API(), w.Idents[0], lo); err == nil {
				_, _ = foreign.Append(w.Ctx, []byte("written under another codec"), nil)
				_, _ = foreign.Join(l, -1) // refused or not: nothing of it may stick to the entries of l
				run.Count("merges_attempted_across_codec_configurations", 1)
			}
		}
		reencode("after logs configured with other codecs tried to merge this log")
		mc, err := l.ToMultihash(w.Ctx)
		if err != nil {
			return
		}
		// the manifest identifier is a function of the manifest: publish, merge, publish again
		other := w.NewLog((i + 1) % 2)
		for k := 0; k < 2; k++ {
			if oe, err := other.Append(w.Ctx, []byte(fmt.Sprintf("%d/%d/o%d", run.Seed, i, k)), nil); err == nil {
				written[oe.GetHash().String()] = oe
			}
		}
		if _, err := l.Join(other, -1); err == nil {
			mc2, err2 := l.ToMultihash(w.Ctx)
			want, err3 := w.IOv().Write(w.Ctx, store.New().API(), l.ToJSONLog(), nil)
			run.Count("manifests_published_before_and_after_a_merge", 1)
			if err2 != nil || err3 != nil || !mc2.Equals(want) {
				run.Violate("C08/manifest-identifier", det("codec", codec), map[string]any{"case": i, "before_merge": mc.String(), "after_merge": mc2.String(), "encoding_of_current_manifest": want.String()},
					"after a merge ToMultihash returned %v, but the log's current manifest encodes to %v (err %v %v)", mc2, want, err2, err3)
			}
			mc = mc2
		}
		for _, loader := range []string{"manifest", "hash", "json-shared-fetch-options"} {
			var back *ipfslog.IPFSLog
			switch loader {
			case "manifest":
				back, err = w.LoadManifest(mc, 0, &hx.LoadOpts{})
			case "hash":
				back, err = w.LoadHash(l.Heads().Slice()[0].GetHash(), 0, &hx.LoadOpts{})
			default:
				// a caller that keeps ONE FetchOptions value around: first a log of another codec, then this one
				fo := &entry.FetchOptions{}
				wp := hx.NewWorld(run.Seed, 1, fmt.Sprintf("c08p-%d", i), "hash", map[bool]string{true: "cbor", false: "link"}[codec != "cbor"])
				pl := wp.NewLog(0)
				_, _ = pl.Append(wp.Ctx, []byte("p1"), nil)
				_, _ = pl.Append(wp.Ctx, []byte("p2"), nil)
				if _, perr := ipfslog.NewFromJSON(wp.Ctx, wp.Store.API(), wp.Idents[0], pl.ToJSONLog(), wp.LogOpts(wp.LogID), fo); perr != nil {
					continue
				}
				back, err = ipfslog.NewFromJSON(w.Ctx, w.Store.API(), w.Idents[0], l.ToJSONLog(), w.LogOpts(w.LogID), fo)
			}
			run.Count("logs_read_back_via_"+loader+"_"+codec, 1)
			d := det("codec", codec, "loader", loader)
			if err != nil || back == nil {
				run.Violate("C08/read-back-error", d, map[string]any{"case": i}, "reading a %s log back through the %s loader failed: %v", codec, loader, err)
				continue
			}
			expect := len(written)
			if loader == "hash" {
				// from one head hash only that head's causal past is reachable
				seen := map[string]bool{}
				stack := []string{l.Heads().Slice()[0].GetHash().String()}
				for len(stack) > 0 {
					hsh := stack[len(stack)-1]
					stack = stack[:len(stack)-1]
					if e, ok := written[hsh]; ok && !seen[hsh] {
						seen[hsh] = true
						for _, nx := range e.GetNext() {
							stack = append(stack, nx.String())
						}
					}
				}
				expect = len(seen)
			}
			if back.Len() != expect {
				run.Violate("C08/read-back-differs", d, map[string]any{"case": i, "written": expect, "read": back.Len()}, "a log of %d entries written with the %s codec reads back %d entries through the %s loader", expect, codec, back.Len(), loader)
				continue
			}
			for _, b := range back.GetEntries().Slice() {
				if o, ok := written[b.GetHash().String()]; !ok {
					run.Violate("C08/read-back-differs", d, map[string]any{"case": i}, "read back an entry that was not written")
				} else if f := entryFieldsDiff(o, b, true); f != "" {
					run.Violate("C08/read-back-differs", det("codec", codec, "loader", loader, "field", f), map[string]any{"case": i, "entry": b.GetHash().String()}, "entry read back through the %s loader differs in %s (%s codec)", loader, f, codec)
				}
			}
		}
		run.Eval(1)
		run.NonTrivial(fmt.Sprintf("via-loader/%s/%d", codec, len(written)))
	})
}

func model_eqCids(a, b []cid.Cid) bool {
	if len(a) != len(b) {
		return false
	}
	for i := range a {
		if !a[i].Equals(b[i]) {
			return false
		}
	}
	return true
}

// c08Pinned re-creates the interoperability vectors pinned in the repository's own suite.
func c08Pinned(run *evid.Run) []string {
	ctx := context.Background()
	var out []string
	st := store.New()
	api := st.API()
	id := suiteIdentity("userA")
	expect := func(name string, got cid.Cid, err error, want string) {
		run.Count("pinned_vectors", 1)
		out = append(out, name+" -> "+got.String())
		if err != nil || got.String() != b32(want) {
			run.Violate("C08/pinned-vector", det("vector", name), map[string]any{"vector": name, "want": b32(want), "got": got.String(), "err": fmt.Sprint(err)}, "pinned interoperability vector %q: got %v (err %v), want %s", name, got, err, b32(want))
		}
	}
	e1, err := entry.CreateEntry(ctx, api, id, &entry.Entry{Payload: []byte("hello"), LogID: "A"}, nil)
	expect("create hello", hashOf(e1), err, "zdpuAsPdzSyeux5mFsFV1y3WeHAShGNi4xo22cYBYWUdPtxVB")
	if e1 != nil {
		c, err := e1.(*entry.Entry).ToMultihash(ctx, api, nil)
		expect("toMultihash hello", c, err, "zdpuAsPdzSyeux5mFsFV1y3WeHAShGNi4xo22cYBYWUdPtxVB")
	}
	e2, err := entry.CreateEntry(ctx, api, id, &entry.Entry{Payload: []byte("hello world"), LogID: "A"}, nil)
	expect("create hello world", hashOf(e2), err, "zdpuAyvJU3TS7LUdfRxwAnJorkz6NfpAWHGypsQEXLZxcCCRC")
	if e2 != nil {
		ee := e2.(*entry.Entry)
		clk := entry.NewLamportClock(ee.Clock.ID, ee.Clock.Time+1)
		e3, err := entry.CreateEntry(ctx, api, id, &entry.Entry{Payload: []byte("hello again"), LogID: "A", Next: []cid.Cid{ee.Hash}, Clock: clk}, nil)
		expect("create hello again with next+clock", hashOf(e3), err, "zdpuAqsN9Py4EWSfrGYZS8tuokWuiTd9zhS8dhr9XpSGQajP2")
		e4, err := entry.CreateEntry(ctx, api, id, &entry.Entry{Payload: []byte("hello again"), LogID: "A", Next: []cid.Cid{ee.Hash}}, nil)
		expect("create hello again with next", hashOf(e4), err, "zdpuAnRGWKPkMHqumqdkRJtzbyW6qAGEiBRv61Zj3Ts4j9tQF")
		if e4 != nil {
			back, err := entry.FromMultihash(ctx, api, e4.GetHash(), id.Provider)
			if err != nil || back.GetLogID() != "A" || string(back.GetPayload()) != "hello again" || len(back.GetNext()) != 1 || !back.GetHash().Equals(e4.GetHash()) {
				run.Violate("C08/pinned-vector", det("vector", "fromMultihash"), nil, "fromMultihash of pinned entry differs: %v", err)
			}
		}
	}
	// v1 fixtures
	v1 := v1Fixtures(id)
	cio := hx.InitIO()
	for i := range v1 {
		c, err := cio.Write(ctx, api, &v1[i], nil)
		if i < 2 { // the suite pins the identifiers of fixtures 0 and 1 only
			expect(fmt.Sprintf("v1 fixture %d", i), c, err, v1[i].Hash.String())
		}
		if err == nil {
			back, err := entry.FromMultihash(ctx, api, c, id.Provider)
			if err != nil {
				run.Violate("C08/legacy-decode", det("vector", fmt.Sprintf("v1-%d", i)), nil, "decoding v1 fixture failed: %v", err)
			} else if f := entryFieldsDiff(&v1[i], back, i < 2); f != "" {
				run.Violate("C08/legacy-decode", det("vector", fmt.Sprintf("v1-%d", i), "field", f), nil, "decoded v1 fixture %d differs in %s", i, f)
			}
		}
	}
	c, err := v1[0].ToMultihash(ctx, api, nil)
	expect("v1 fixture 0 toMultihash", c, err, "zdpuAsJDrLKrAiU8M518eu6mgv9HzS3e1pfH5XC7LUsFgsK5c")
	// v0 fixtures through the legacy codec
	pbio := hx.IO("pb")
	v0 := v0Fixtures()
	for _, name := range []string{"hello", "helloWorld", "helloAgain"} {
		f := v0[name]
		c, err := entry.ToMultihashWithIO(ctx, f, api, nil, pbio)
		if name == "hello" {
			expect("v0 fixture hello toMultihash", c, err, "Qmc2DEiLirMH73kHpuFPbt3V65sBrnDWkJYSjUQHXXvghT")
		}
		if name == "helloWorld" {
			cw, err := pbio.Write(ctx, api, f, nil)
			expect("v0 fixture helloWorld written with its hash field", cw, err, "QmenUDpFksTa3Q9KmUJYjebqvHJcTF2sGQaCH7orY7bXKC")
			if err == nil {
				if b2, err := entry.FromMultihashWithIO(ctx, api, cw, id.Provider, pbio); err != nil || !b2.GetHash().Equals(cw) {
					run.Violate("C08/legacy-decode", det("vector", "v0-helloWorld-with-hash"), nil, "decoding v0 fixture failed: %v", err)
				}
			}
		}
		if wantN := map[string]string{"helloWorld": "QmUKMoRrmsYAzQg1nQiD7Fzgpo24zXky7jVJNcZGiSAdhc", "helloAgain": "QmZ8va2fSjRufV1sD6x5mwi6E5GrSjXHx7RiKFVBzkiUNZ"}[name]; wantN != "" {
			cn, err := pbio.Write(ctx, api, entry.Normalize(f, nil), nil)
			expect("v0 fixture "+name+" normalized", cn, err, wantN)
		}
		if err != nil {
			continue
		}
		back, err := entry.FromMultihashWithIO(ctx, api, c, id.Provider, pbio)
		if err != nil {
			run.Violate("C08/legacy-decode", det("vector", "v0-"+name), nil, "decoding v0 fixture failed: %v", err)
			continue
		}
		if !back.GetHash().Equals(c) || string(back.GetPayload()) != string(f.Payload) || back.GetLogID() != f.LogID || back.GetV() != 0 ||
			!bytes.Equal(back.GetKey(), f.Key) || !bytes.Equal(back.GetSig(), f.Sig) || !model_eqCids(back.GetNext(), f.Next) ||
			!bytes.Equal(back.GetClock().GetID(), f.Clock.ID) || back.GetClock().GetTime() != f.Clock.Time {
			run.Violate("C08/legacy-decode", det("vector", "v0-"+name), nil, "decoded v0 fixture %s differs from the pinned values", name)
		}
		run.Count("legacy_v0_decodes", 1)
	}
	return out
}

func hashOf(e iface.IPFSLogEntry) cid.Cid {
	if e == nil {
		return cid.Undef
	}
	return e.GetHash()
}

// ---------------------------------------------------------------- C08

func CheckC08(run *evid.Run) {
	n := pick(run.Tier, 12000, 200000)
	nm := pick(run.Tier, 300, 6000)
	run.Rule = "seeded corpus of entries created with the real codecs (payload classes ascii / UTF-8 / invalid UTF-8 / NUL / binary / 64 KiB / 1 byte; 0-16 predecessors and references; clock time in {0,1,2,2^31,2^53,MaxInt64}; clock ids of 1-65 random bytes or the writer key; 3 identities; default codec 3/4, link-encrypting 1/4): write -> read back -> field-by-field equality, re-encode -> same CID, encode a deep copy on a fresh store -> same CID, CID = hash of stored bytes; manifests with 1-32 heads; the pinned interoperability vectors and v0/v1 fixtures of the repository's suite re-created with the suite's key material; and the same corpus encoded in 3 child processes (GOMAXPROCS 1/4/16) whose CID lists must be identical to the parent's. Non-trivial = entry with links, non-ascii payload or explicit clock; distinct = (codec, class, #next bucket, #refs bucket, clock class)"
	run.Assumptions = []string{"AdditionalData (derived, in-memory only) is compared through Verify in C18, not field by field", "pinned vectors are the literal CIDs of test/entry_test.go and test/utils_fixtures_test.go; no new golden values are invented"}
	// in-process: full checks, split over workers
	parts := Workers()
	lists := make([][]string, parts)
	per := (n + parts - 1) / parts
	_ = per
	// the corpus is indexed globally; each worker handles a stride
	parallel(parts, func(p int) {
		sub := evidStride(run, p, parts, n)
		lists[p] = sub
	})
	run.Eval(n)
	mlist := c08Manifests(run, run.Seed, nm)
	run.Eval(nm)
	c08ViaLoaders(run, pick(run.Tier, 120, 1500))
	pinned := c08Pinned(run)
	run.Eval(len(pinned))
	// cross-process determinism on a prefix of the corpus
	nx := pick(run.Tier, 400, 4000)
	parent := digestList(append(append(c08Corpus(evid.NewPartialRun("C08", run.Tier, run.Seed), run.Seed, nx, false), c08Manifests(evid.NewPartialRun("C08", run.Tier, run.Seed), run.Seed, 50)...), pinned...))
	var digests []string
	o := ChildOpts{Key: "C08x", Batches: 3, Parallel: 3,
		OnPartial: func(b int, p *evid.Partial) {
			if d, ok := p.Extra["cid_list_digest"].(string); ok {
				digests = append(digests, d)
			}
		}}
	RunChildren(run, o)
	run.Extra["cross_process_cid_list_digests"] = append([]string{parent}, digests...)
	if len(digests) != 3 {
		run.Broken(fmt.Sprintf("expected 3 child CID lists, got %d", len(digests)))
	}
	for _, d := range digests {
		if d != parent {
			run.Violate("C08/cross-process", det(), map[string]any{"parent": parent, "children": digests}, "the same corpus encoded to different identifiers in another process")
		}
	}
	_ = mlist
}

func evidStride(run *evid.Run, p, parts, n int) []string {
	// run the corpus items i ≡ p (mod parts)
	var out []string
	for i := p; i < n; i += parts {
		out = append(out, c08CorpusOne(run, run.Seed, i)...)
	}
	return out
}

// c08CorpusOne runs item i with full checks (c08Corpus with a window of one).
func c08CorpusOne(run *evid.Run, seed int64, i int) []string {
	return c08CorpusRange(run, seed, i, i+1, true)
}

func digestList(l []string) string {
	h := sha256.New()
	for _, s := range l {
		h.Write([]byte(s))
		h.Write([]byte{'\n'})
	}
	return hex.EncodeToString(h.Sum(nil))[:24]
}

func init() {
	childFns["C08x"] = func(run *evid.Run, batch, nb int, j *Journal) {
		nx := pick(run.Tier, 400, 4000)
		l := c08Corpus(run, run.Seed, nx, false)
		l = append(l, c08Manifests(run, run.Seed, 50)...)
		l = append(l, c08Pinned(run)...)
		run.Extra["cid_list_digest"] = digestList(l)
		run.Extra["items"] = len(l)
	}
}

var _ = sort.Strings
var _ = strings.Join
var _ = ipfslog.NewLog
