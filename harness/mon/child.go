package mon

import (
	"bytes"
	"encoding/json"
	"fmt"
	"os"
	"os/exec"
	"path/filepath"
	"regexp"
	"strconv"
	"strings"
	"sync"
	"syscall"
	"time"

	"verifharness/evid"
	"verifharness/hx"
)

// Journal: the child appends one line before each case it is about to run, so
// that a process-fatal event (panic on a library goroutine, runtime fatal
// error, race-detector abort) still names the input.
type Journal struct {
	f  *os.File
	mu sync.Mutex
}

func (j *Journal) Log(v any) {
	if j == nil || j.f == nil {
		return
	}
	b, _ := json.Marshal(v)
	j.mu.Lock()
	j.f.Write(append(b, '\n'))
	j.mu.Unlock()
}

// ChildFn runs batch b of n of a property's child workload.
type ChildFn func(run *evid.Run, batch, nbatches int, j *Journal)

var childFns = map[string]ChildFn{}

// ChildMain: vcheck -child <prop> <tier> <seed> <batch> <nbatches> <outfile> <journal>
func ChildMain(args []string) {
	if len(args) < 8 {
		fmt.Fprintln(os.Stderr, "bad child args")
		os.Exit(2)
	}
	prop, tier := args[1], args[2]
	seed, _ := strconv.ParseInt(args[3], 10, 64)
	batch, _ := strconv.Atoi(args[4])
	nb, _ := strconv.Atoi(args[5])
	out, jpath := args[6], args[7]
	fn, ok := childFns[prop]
	if !ok {
		fmt.Fprintln(os.Stderr, "no child fn for", prop)
		os.Exit(2)
	}
	jf, err := os.OpenFile(jpath, os.O_CREATE|os.O_WRONLY|os.O_APPEND, 0o644)
	if err != nil {
		fmt.Fprintln(os.Stderr, err)
		os.Exit(2)
	}
	hx.InitIO()
	run := evid.NewPartialRun(prop, tier, seed)
	run.SaturateAt = 6
	InstallObserveHook(run)
	// flush what has been found so far every second: if this process dies or is
	// stopped by the parent's watchdog, the violations already witnessed survive
	var flushMu sync.Mutex
	finalDone := false
	flush := func(final bool) {
		// serialised: a periodic flush that was under way must not land AFTER the final one (the parent would read
		// an incomplete result from a child that exited normally)
		flushMu.Lock()
		defer flushMu.Unlock()
		if finalDone {
			return
		}
		finalDone = final
		p := run.ToPartial()
		p.Complete = final
		b, _ := json.Marshal(p)
		tmp := out + ".tmp"
		if err := os.WriteFile(tmp, b, 0o644); err == nil {
			_ = os.Rename(tmp, out)
		}
	}
	stopFlush := make(chan struct{})
	go func() {
		for {
			select {
			case <-stopFlush:
				return
			case <-time.After(time.Second):
				flush(false)
			}
		}
	}()
	MemoryWatchdog(run, 2, func() { flush(true); os.Exit(0) })
	fn(run, batch, nb, &Journal{f: jf})
	close(stopFlush)
	flush(true)
	os.Exit(0)
}

type ChildOpts struct {
	Key      string // child function key (defaults to the property id)
	Batches  int
	Race     bool
	Timeout  time.Duration // generous wall-clock watchdog; firing = inconclusive unless the dump shows a deadlock
	Env      []string
	Parallel int
	// OnDeath turns a dead child into a violation signature/detail (from the last journal line + stderr).
	OnDeath func(lastCase map[string]any, stderrTail string, kind string) (sig string, detail map[string]any)
	// OnPartial sees every child's partial result (serialised).
	OnPartial func(batch int, p *evid.Partial)
	// RaceInScope decides whether a race report is a violation of this property.
	RaceInScope func(report string) bool
}

func scratchDir() string {
	d := filepath.Join(evid.OutRoot(), ".scratch")
	_ = os.MkdirAll(d, 0o755)
	return d
}

var raceHdr = regexp.MustCompile(`(?m)^WARNING: DATA RACE`)

// RunChildren forks batches and merges their partial results into run.
func RunChildren(run *evid.Run, o ChildOpts) {
	exe, _ := os.Executable()
	if o.Race {
		exe = strings.TrimSuffix(exe, "-race") + "-race"
		if _, err := os.Stat(exe); err != nil {
			run.Inconclusive("race build missing: " + exe)
			return
		}
	}
	if o.Key == "" {
		o.Key = run.Prop
	}
	if o.Parallel == 0 {
		o.Parallel = Workers()
	}
	if o.Timeout == 0 {
		o.Timeout = 10 * time.Minute
		if run.Tier == "thorough" {
			o.Timeout = 90 * time.Minute // race-instrumented batches of the deep tier are long; the watchdog only guards against a stuck child
		}
	}
	dir, _ := os.MkdirTemp(scratchDir(), run.Prop+"-")
	defer os.RemoveAll(dir)
	sem := make(chan struct{}, o.Parallel)
	var wg sync.WaitGroup
	raceSeen := map[string]bool{}
	var rmu sync.Mutex
	for b := 0; b < o.Batches; b++ {
		wg.Add(1)
		sem <- struct{}{}
		go func(b int) {
			defer wg.Done()
			defer func() { <-sem }()
			out := filepath.Join(dir, fmt.Sprintf("out-%d.json", b))
			jp := filepath.Join(dir, fmt.Sprintf("journal-%d.jsonl", b))
			errp := filepath.Join(dir, fmt.Sprintf("stderr-%d.txt", b))
			racep := filepath.Join(dir, fmt.Sprintf("race-%d", b))
			ef, _ := os.Create(errp)
			cmd := exec.Command(exe, "-child", o.Key, run.Tier, fmt.Sprint(run.Seed), fmt.Sprint(b), fmt.Sprint(o.Batches), out, jp)
			cmd.Stdout = ef
			cmd.Stderr = ef
			cmd.Env = append(os.Environ(), "GOTRACEBACK=all")
			cmd.SysProcAttr = &syscall.SysProcAttr{Pdeathsig: syscall.SIGKILL}
			if o.Race {
				cmd.Env = append(cmd.Env, "GORACE=halt_on_error=0 exitcode=0 history_size=3 log_path="+racep)
			}
			cmd.Env = append(cmd.Env, o.Env...)
			if err := cmd.Start(); err != nil {
				run.Inconclusive("cannot start child: " + err.Error())
				return
			}
			done := make(chan error, 1)
			go func() { done <- cmd.Wait() }()
			kind := ""
			var werr error
			select {
			case werr = <-done:
			case <-time.After(o.Timeout):
				kind = "watchdog"
				_ = cmd.Process.Signal(syscall.SIGQUIT)
				select {
				case werr = <-done:
				case <-time.After(20 * time.Second):
					_ = cmd.Process.Kill()
					werr = <-done
				}
			}
			ef.Close()
			// race reports
			if o.Race {
				files, _ := filepath.Glob(racep + ".*")
				for _, f := range files {
					data, _ := os.ReadFile(f)
					for _, rep := range splitRaceReports(string(data)) {
						key := raceKey(rep)
						rmu.Lock()
						dup := raceSeen[key]
						raceSeen[key] = true
						rmu.Unlock()
						run.Count("race_reports_total", 1)
						if dup {
							continue
						}
						if o.RaceInScope != nil && o.RaceInScope(rep) {
							run.Count("race_reports_distinct_in_scope", 1)
							run.Violate(run.Prop+"/data-race", det("frames", key), rep, "data race reported by the Go race detector: %s", key)
						} else {
							run.Count("race_reports_distinct_out_of_scope", 1)
							run.Count("race_out_of_scope: "+key, 1)
							rmu.Lock()
							if _, ok := run.Extra["race_out_of_scope_example"]; !ok {
								run.Extra["race_out_of_scope_example"] = clipStr(rep, 3000)
							}
							rmu.Unlock()
							if strings.HasPrefix(key, "non-library") && strings.Contains(rep, "verifharness") {
								run.Broken("data race inside the harness itself: " + firstFrames(rep))
							}
						}
					}
				}
			}
			if data, err := os.ReadFile(out); err == nil {
				var p evid.Partial
				if json.Unmarshal(data, &p) == nil {
					run.Merge(&p)
					if p.Complete && werr == nil {
						if o.OnPartial != nil {
							rmu.Lock()
							o.OnPartial(b, &p)
							rmu.Unlock()
						}
						return
					}
					if len(p.Violations) > 0 && kind == "watchdog" {
						// stopped by the watchdog, but it had already witnessed violations
						return
					}
				}
			}
			// the child died or hung
			stderrB, _ := os.ReadFile(errp)
			tail := string(stderrB)
			if len(tail) > 6000 {
				tail = tail[:3000] + "\n...\n" + tail[len(tail)-3000:]
			}
			last := map[string]any{}
			if jb, err := os.ReadFile(jp); err == nil {
				lines := bytes.Split(bytes.TrimSpace(jb), []byte("\n"))
				if len(lines) > 0 {
					_ = json.Unmarshal(lines[len(lines)-1], &last)
				}
			}
			if kind == "" {
				switch {
				case strings.Contains(tail, "fatal error:"):
					kind = "fatal"
				case strings.Contains(tail, "panic:"):
					kind = "panic"
				default:
					kind = "exit"
				}
			}
			if kind == "exit" {
				run.Broken(fmt.Sprintf("child batch %d exited abnormally without panic: %v: %s", b, werr, firstLine(tail)))
				return
			}
			if kind == "watchdog" {
				run.Inconclusive(fmt.Sprintf("child batch %d hit the %s wall-clock watchdog; last case %v", b, o.Timeout, last))
				return
			}
			if who := panicOrigin(string(stderrB)); who == "harness" {
				run.Broken(fmt.Sprintf("child batch %d: panic raised by the harness itself while running case %v: %s", b, last, firstLine(tail)))
				return
			}
			sig, detail := run.Prop+"/process-died", det("kind", kind)
			if o.OnDeath != nil {
				sig, detail = o.OnDeath(last, tail, kind)
			}
			run.Violate(sig, detail, map[string]any{"last_case": last, "stderr": tail}, "child process died (%s) while running case %v: %s", kind, last, firstLine(tail))
		}(b)
	}
	wg.Wait()
}

func firstLine(s string) string {
	for _, l := range strings.Split(s, "\n") {
		if strings.HasPrefix(l, "panic:") || strings.HasPrefix(l, "fatal error:") {
			return l
		}
	}
	if i := strings.Index(s, "\n"); i > 0 {
		return s[:i]
	}
	return s
}

func splitRaceReports(s string) []string {
	idx := raceHdr.FindAllStringIndex(s, -1)
	var out []string
	for i, m := range idx {
		end := len(s)
		if i+1 < len(idx) {
			end = idx[i+1][0]
		}
		out = append(out, s[m[0]:end])
	}
	return out
}

var frameRe = regexp.MustCompile(`(?m)^  ([A-Za-z0-9_./()*\-]+)\(\)\n`)

// raceKey de-duplicates a report by the innermost library frames of both stacks (function names, no line numbers).
func raceKey(rep string) string {
	var parts []string
	for _, blk := range strings.Split(rep, "\n\n") {
		if !(strings.HasPrefix(strings.TrimSpace(blk), "Read at") || strings.HasPrefix(strings.TrimSpace(blk), "Write at") ||
			strings.HasPrefix(strings.TrimSpace(blk), "Previous read") || strings.HasPrefix(strings.TrimSpace(blk), "Previous write") ||
			strings.HasPrefix(strings.TrimSpace(blk), "WARNING")) {
			continue
		}
		fr := ""
		for _, m := range frameRe.FindAllStringSubmatch(blk+"\n", -1) {
			if strings.Contains(m[1], "berty.tech/go-ipfs-log") {
				fr = m[1]
				break
			}
		}
		if fr != "" {
			parts = append(parts, strings.TrimPrefix(fr, "berty.tech/go-ipfs-log"))
		}
	}
	if len(parts) == 0 {
		return "non-library:" + firstLine(rep)
	}
	if len(parts) > 2 {
		parts = parts[:2]
	}
	return strings.Join(parts, " <-> ")
}

func firstFrames(rep string) string {
	var out []string
	for _, m := range frameRe.FindAllStringSubmatch(rep, -1) {
		if len(out) < 6 {
			out = append(out, m[1])
		}
	}
	return strings.Join(out, " | ")
}

// panicOrigin looks at the stack of the panicking goroutine: "library" if the first frame that is neither
// runtime nor standard library belongs to go-ipfs-log, "harness" if it belongs to the harness, "" otherwise.
func panicOrigin(stderr string) string {
	i := strings.Index(stderr, "panic:")
	if j := strings.Index(stderr, "fatal error:"); j >= 0 && (i < 0 || j < i) {
		i = j
	}
	if i < 0 {
		return ""
	}
	rest := stderr[i:]
	g := strings.Index(rest, "goroutine ")
	if g < 0 {
		return ""
	}
	block := rest[g:]
	if e := strings.Index(block, "\n\n"); e > 0 {
		block = block[:e]
	}
	for _, l := range strings.Split(block, "\n") {
		if strings.HasPrefix(l, "\t") || strings.HasPrefix(l, "goroutine ") || strings.HasPrefix(l, "panic(") || strings.HasPrefix(l, "created by") {
			continue
		}
		switch {
		case strings.HasPrefix(l, "berty.tech/go-ipfs-log"):
			return "library"
		case strings.HasPrefix(l, "verifharness/") || strings.HasPrefix(l, "main."):
			return "harness"
		}
	}
	return ""
}
