// Package mon holds the runtime monitors, one file per group of properties.
package mon

import (
	"context"
	"fmt"
	"os"
	"runtime"
	"runtime/debug"
	"strconv"
	"strings"
	"sync"
	"time"

	"verifharness/evid"
	"verifharness/hx"
)

func Workers() int {
	if v := os.Getenv("VERIF_WORKERS"); v != "" {
		if n, err := strconv.Atoi(v); err == nil && n > 0 {
			return n
		}
	}
	n := runtime.NumCPU()
	if n > 16 {
		n = 16
	}
	return n
}

// parallel runs fn(i) for i in [0,n) on a worker pool.
func parallel(n int, fn func(i int)) {
	w := Workers()
	var wg sync.WaitGroup
	ch := make(chan int)
	for k := 0; k < w; k++ {
		wg.Add(1)
		go func() {
			defer wg.Done()
			for i := range ch {
				if !evid.IsSaturated() {
					watchedCase(i, fn)
				}
			}
		}()
	}
	for i := 0; i < n; i++ {
		ch <- i
	}
	close(ch)
	wg.Wait()
}

// watchedCase runs one case on its own goroutine. In-process monitors call into the library without the
// state-based hang detectors of the child-process monitors; a defect that makes an operation block for ever
// would otherwise leave the whole check without a verdict. If the case has not returned after caseLimit, the
// stack of ITS goroutine is looked at twice, a minute apart: the same library frame in the same wait state both
// times is reported as a violation (the operation never returns); anything else is inconclusive. Either way the
// case is abandoned and the check goes on.
const caseLimit = 6 * time.Minute

func watchedCase(i int, fn func(i int)) {
	done := make(chan struct{})
	gidc := make(chan string, 1)
	go func() {
		defer close(done)
		gidc <- goid()
		guard(i, fn)
	}()
	gid := <-gidc
	select {
	case <-done:
		return
	case <-time.After(caseLimit):
	}
	stackOf := func() string {
		for _, g := range strings.Split(goroutineDump(), "\n\n") {
			if strings.HasPrefix(g, "goroutine "+gid+" [") {
				return g
			}
		}
		return ""
	}
	top := func(st string) string { // wait state + innermost library frame
		lines := strings.Split(st, "\n")
		state := lines[0]
		if k := strings.Index(state, ","); k > 0 { // drop ", N minutes"
			state = state[:k] + "]"
		}
		for _, l := range lines[1:] {
			if strings.Contains(l, "berty.tech/go-ipfs-log") {
				return state + " " + strings.TrimSpace(l)
			}
		}
		return state
	}
	s1 := stackOf()
	select {
	case <-done:
		return
	case <-time.After(time.Minute):
	}
	s2 := stackOf()
	if CurrentRun == nil {
		return
	}
	if s1 != "" && top(s1) == top(s2) && (waitingState.MatchString(s2) || semWait(strings.SplitN(s2, "\n", 2)[0], s2)) && strings.Contains(s2, "berty.tech/go-ipfs-log") {
		CurrentRun.Violate(CurrentRun.Prop+"/operation-never-returns", det("blocked_in", top(s2)), map[string]any{"case": i, "goroutine": clipStr(s2, 6000)},
			"case %d called into the library %v ago and the call has not returned: its goroutine sits in the same wait state inside the library (%s)", i, caseLimit+time.Minute, top(s2))
	} else {
		CurrentRun.Inconclusive(fmt.Sprintf("case %d did not finish within %v (no stable wait state inside the library): abandoned", i, caseLimit+time.Minute))
	}
}

// CurrentRun is the run of the in-process check; a panic inside a case is turned
// into a violation when it was raised inside the library, into a broken-check
// verdict when it was raised by the harness itself.
var CurrentRun *evid.Run

// caseOf: goroutine id -> index of the case it is running (context for violations raised from hooks).
var caseOf sync.Map

func goid() string {
	var b [64]byte
	f := strings.Fields(string(b[:runtime.Stack(b[:], false)]))
	if len(f) > 1 {
		return f[1]
	}
	return "?"
}

// InstallObserveHook: for the properties that speak about the CONTENT of what a log hands out, every
// observation in which an accessor returns, for a hash the log holds, an object differing from the held one
// is a violation (an unverified look-alike got in).
func InstallObserveHook(run *evid.Run) {
	switch run.Prop {
	case "C01", "C03", "C05", "C06", "C09":
	default:
		return
	}
	hx.OnStepProblem = func(step, problem string) {
		c, _ := caseOf.Load(goid())
		run.Violate(run.Prop+"/forged-entry-admitted", det("step", strings.SplitN(step, "(", 2)[0]), map[string]any{"case": c, "step": step}, "%s: %s", step, problem)
	}
	hx.OnObserve = func(o *hx.Obs) {
		if len(o.Differ) == 0 {
			return
		}
		c, _ := caseOf.Load(goid())
		st := string(debug.Stack())
		var frames []string
		for _, l := range strings.Split(st, "\n") {
			if strings.HasPrefix(l, "verifharness/mon.") {
				frames = append(frames, l)
			}
		}
		run.Violate(run.Prop+"/look-alike-handed-out", det("accessor", strings.SplitN(o.Differ[0], "(", 2)[0]),
			map[string]any{"case": c, "log": o.ID, "differ": o.Differ, "observed_in": frames},
			"a log hands out an object that differs from the entry it holds under that hash (never verified): %s", o.Differ[0])
	}
}

func guard(i int, fn func(i int)) {
	g := goid()
	caseOf.Store(g, i)
	defer caseOf.Delete(g)
	defer func() {
		p := recover()
		if p == nil {
			return
		}
		st := string(debug.Stack())
		// first frame below the panic machinery
		lib := false
		lines := strings.Split(st, "\n")
		for k, l := range lines {
			if strings.HasPrefix(l, "panic(") || strings.Contains(l, "runtime.") || strings.HasPrefix(l, "\t") || strings.HasPrefix(l, "goroutine ") || strings.Contains(l, "debug.Stack") || strings.Contains(l, "mon.guard") {
				continue
			}
			lib = strings.Contains(l, "berty.tech/go-ipfs-log")
			_ = k
			break
		}
		if CurrentRun == nil {
			panic(p)
		}
		if lib {
			CurrentRun.Violate(CurrentRun.Prop+"/library-panic", det("case", i), map[string]any{"case": i, "panic": fmt.Sprint(p), "stack": clipStr(st, 6000)},
				"the library panicked while running case %d: %v", i, p)
		} else {
			CurrentRun.Broken(fmt.Sprintf("harness panic in case %d: %v\n%s", i, p, clipStr(st, 3000)))
		}
	}()
	fn(i)
}

func histSample(h *hx.History) map[string]any {
	var steps []string
	for _, s := range h.Steps {
		steps = append(steps, s.String())
	}
	return map[string]any{"history": fmt.Sprintf("seed=%d idx=%d", h.Seed, h.Idx), "shape": h.Shape, "order": h.Order,
		"codec": h.Codec, "replicas": h.Replicas, "replica_writer": h.ReplicaWriter, "steps": steps}
}

func pick(tier string, quick, thorough int) int {
	if tier == "thorough" {
		return thorough
	}
	return quick
}

type Check func(run *evid.Run)

var hxCtx = context.Background()

func det(kv ...any) map[string]any {
	m := map[string]any{}
	for i := 0; i+1 < len(kv); i += 2 {
		m[fmt.Sprint(kv[i])] = kv[i+1]
	}
	return m
}

func envInt(name string, def int) int {
	if v := os.Getenv(name); v != "" {
		if n, err := strconv.Atoi(v); err == nil {
			return n
		}
	}
	return def
}

func writeFile(p string, b []byte) error { return os.WriteFile(p, b, 0o644) }
func readFile(p string) ([]byte, error)  { return os.ReadFile(p) }

func countRefused(run *evid.Run, s hx.Step) {
	run.Count("refused_operations", 1)
	if s.Op == "joinimpostor" {
		run.Count("merges_offering_a_same_hash_look_alike_of_a_held_entry", 1)
	}
}

// MemoryWatchdog: this sandbox has no memory limit, and a defect that makes the library build an unbounded
// structure (a traversal over a cycle) would take the machine down before any verdict is written. When the live
// heap of the process exceeds the limit the run is closed at once with a violation naming the cases in flight.
// The limit is far above what any check needs on the unchanged tree (observed: < 3 GiB).
func MemoryWatchdog(run *evid.Run, limitGiB int, finish func()) {
	if v := envInt("VERIF_MEM_GIB", 0); v > 0 {
		limitGiB = v
	}
	go func() {
		var ms runtime.MemStats
		for {
			time.Sleep(250 * time.Millisecond)
			runtime.ReadMemStats(&ms)
			if ms.HeapAlloc < uint64(limitGiB)<<30 {
				continue
			}
			var cases []string
			caseOf.Range(func(k, v any) bool { cases = append(cases, fmt.Sprint(v)); return len(cases) < 64 })
			dump := goroutineDump()
			var lib []string
			for _, g := range strings.Split(dump, "\n\n") {
				if strings.Contains(g, "berty.tech/go-ipfs-log") && !strings.Contains(g, "mon.goroutineDump") && len(lib) < 8 {
					lib = append(lib, clipStr(g, 1800))
				}
			}
			run.Violate(run.Prop+"/memory-exhausted", det("limit_gib", limitGiB), map[string]any{"cases_in_flight": cases, "heap_alloc_bytes": ms.HeapAlloc, "library_goroutines": lib},
				"the live heap of the check exceeded %d GiB while the library was running (an operation that builds an unbounded structure, e.g. a traversal that never ends); cases in flight: %v", limitGiB, cases)
			finish()
		}
	}()
}
