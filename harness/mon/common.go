// Package mon holds the runtime monitors, one file per group of properties.
package mon

import (
	"fmt"
	"os"
	"runtime"
	"strconv"
	"sync"

	"verifharness/evid"
	"verifharness/hx"
)

func Workers() int {
	if v := os.Getenv("VERIF_WORKERS"); v != "" {
		if n, err := strconv.Atoi(v); err == nil && n > 0 {
			return n
		}
	}
	n := runtime.NumCPU()
	if n > 16 {
		n = 16
	}
	return n
}

// parallel runs fn(i) for i in [0,n) on a worker pool.
func parallel(n int, fn func(i int)) {
	w := Workers()
	var wg sync.WaitGroup
	ch := make(chan int)
	for k := 0; k < w; k++ {
		wg.Add(1)
		go func() {
			defer wg.Done()
			for i := range ch {
				if !evid.IsSaturated() {
					fn(i)
				}
			}
		}()
	}
	for i := 0; i < n; i++ {
		ch <- i
	}
	close(ch)
	wg.Wait()
}

func histSample(h *hx.History) map[string]any {
	var steps []string
	for _, s := range h.Steps {
		steps = append(steps, s.String())
	}
	return map[string]any{"history": fmt.Sprintf("seed=%d idx=%d", h.Seed, h.Idx), "shape": h.Shape, "order": h.Order,
		"codec": h.Codec, "replicas": h.Replicas, "replica_writer": h.ReplicaWriter, "steps": steps}
}

func pick(tier string, quick, thorough int) int {
	if tier == "thorough" {
		return thorough
	}
	return quick
}

type Check func(run *evid.Run)

func det(kv ...any) map[string]any {
	m := map[string]any{}
	for i := 0; i+1 < len(kv); i += 2 {
		m[fmt.Sprint(kv[i])] = kv[i+1]
	}
	return m
}

func envInt(name string, def int) int {
	if v := os.Getenv(name); v != "" {
		if n, err := strconv.Atoi(v); err == nil {
			return n
		}
	}
	return def
}

func writeFile(p string, b []byte) error { return os.WriteFile(p, b, 0o644) }
func readFile(p string) ([]byte, error)  { return os.ReadFile(p) }
