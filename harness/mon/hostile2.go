package mon

import (
	"encoding/json"
	"fmt"
	"math/rand"
	"time"

	ipfslog "berty.tech/go-ipfs-log"
	"github.com/ipfs/go-cid"

	"verifharness/evid"
	"verifharness/hx"
	"verifharness/store"
)

// c12PlaceV0: a chain of legacy v0 protobuf blocks with hostile v0 blocks in it, loaded with the legacy codec.
func c12PlaceV0(run *evid.Run, i int, rng *rand.Rand, items []placeItem, j *Journal) {
	w := hx.NewWorld(run.Seed, 1, "A", "hash", "pb")
	n := 4 + rng.Intn(8)
	var cids []cid.Cid
	var raws [][]byte
	for k := 0; k < n; k++ {
		next := []any{}
		if k > 0 {
			next = append(next, cids[k-1].String())
		}
		v := map[string]any{"hash": nil, "id": "A", "payload": fmt.Sprintf("v0-%d-%d", i, k), "next": next, "v": 0,
			"clock": map[string]any{"id": v0Key, "time": k}, "key": v0Key, "sig": v0Sig}
		jb, _ := json.Marshal(v)
		raw, c := pbBlock(jb)
		cids = append(cids, c)
		raws = append(raws, raw)
	}
	bad := map[int]bool{}
	for k := 1 + rng.Intn(2); k > 0; k-- {
		bad[rng.Intn(n)] = true
	}
	// every other chain is built so that one legacy entry links to a block of ANOTHER codec (a dag-cbor entry block):
	// the legacy decoder is then handed a node that is not a protobuf node
	foreignAt := -1
	var foreignRaw []byte
	var foreignCidV cid.Cid
	if i%2 == 0 && n >= 3 {
		foreignAt = 1 + rng.Intn(n-2)
		wc := hx.NewWorld(run.Seed, 1, "A", "hash", "cbor")
		fe, err := wc.NewLog(0).Append(wc.Ctx, []byte("cbor block inside a legacy log"), nil)
		if err == nil {
			foreignCidV = fe.GetHash()
			foreignRaw, _ = wc.Store.Raw(foreignCidV)
			// rebuild the chain above the foreign block so that its successor names the cbor CID
			cids, raws = cids[:foreignAt], raws[:foreignAt]
			prev := foreignCidV
			for k := foreignAt; k < n; k++ {
				v := map[string]any{"hash": nil, "id": "A", "payload": fmt.Sprintf("v0-%d-%d", i, k), "next": []any{prev.String()}, "v": 0,
					"clock": map[string]any{"id": v0Key, "time": k}, "key": v0Key, "sig": v0Sig}
				jb, _ := json.Marshal(v)
				raw, c := pbBlock(jb)
				cids = append(cids, c)
				raws = append(raws, raw)
				prev = c
			}
			for k := range bad {
				if k < foreignAt {
					delete(bad, k)
				}
			}
		} else {
			foreignAt = -1
		}
	}
	st := store.New()
	if foreignAt >= 0 {
		st.PutRaw(foreignCidV, foreignRaw)
	}
	var edits []string
	for k := range cids {
		st.PutRaw(cids[k], raws[k])
		if bad[k] {
			it := items[rng.Intn(len(items))]
			st.SetReplace(cids[k], mustHex(it.RawHex))
			edits = append(edits, it.Edits)
		}
	}
	w.Store = st
	// expected: from the head down to (not including) the newest hostile block / the foreign-codec block
	want := 0
	for k := n - 1; k >= 0 && !bad[k]; k-- {
		if foreignAt >= 0 && k < foreignAt {
			break
		}
		want++
	}
	if foreignAt >= 0 {
		edits = append(edits, fmt.Sprintf("entry %d links to a dag-cbor block", foreignAt))
	}
	j.Log(map[string]any{"case": i, "edits": edits, "position": "v0-chain", "loader": "hash"})
	var loaded *ipfslog.IPFSLog
	var err error
	returned, dump := callHang(st, time.Second, func() { loaded, err = w.LoadHash(cids[n-1], 0, &hx.LoadOpts{Concurrency: []int{0, 1, 2}[rng.Intn(3)]}) })
	run.Count("placement_loads", 1)
	run.Count("placement_v0_chain", 1)
	d := det("position", "v0-chain", "loader", "hash", "edits", fmt.Sprint(edits))
	wit := map[string]any{"chain_length": n, "hostile_positions": fmt.Sprint(bad), "edits": edits}
	switch {
	case !returned && dump != "":
		wit["goroutine_dump"] = clipStr(dump, 6000)
		run.Violate("C12/load-hung", d, wit, "loading a legacy v0 chain with hostile blocks never returned")
	case !returned:
		run.Inconclusive("v0 placement load hit the wall-clock cap")
	case err != nil || loaded == nil:
		run.Violate("C12/load-failed", d, wit, "loading a legacy v0 chain with hostile blocks failed instead of skipping them: %v", err)
	case loaded.Len() != want:
		run.Violate("C12/rest-not-loaded", d, wit, "legacy v0 chain of %d with hostile blocks at %v: loaded %d entries, the remaining history has %d", n, bad, loaded.Len(), want)
	}
	run.Eval(1)
	run.NonTrivial(fmt.Sprintf("place/v0/%v", edits))
}

// c12PlaceManifest: the manifest block itself is hostile; the load must return (an error or a log), never crash or hang.
func c12PlaceManifest(run *evid.Run, i int, rng *rand.Rand, items []placeItem, j *Journal) {
	h := hx.Gen(run.Seed, i, hx.GenOpts{MaxSteps: 20, Orders: []string{"hash"}, MaxReplicas: 3})
	x := hx.NewExec(h)
	for k := range h.Steps {
		x.Do(k)
	}
	for _, l := range x.Logs {
		if l.Len() == 0 {
			continue
		}
		mc, err := l.ToMultihash(x.W.Ctx)
		if err != nil {
			continue
		}
		it := items[rng.Intn(len(items))]
		cs := x.W.Store.Clone()
		cs.SetReplace(mc, mustHex(it.RawHex))
		w2 := *x.W
		w2.Store = cs
		j.Log(map[string]any{"case": i, "edits": it.Edits, "position": "manifest", "loader": "manifest", "block_hex": it.RawHex[:minInt(len(it.RawHex), 600)]})
		var loaded *ipfslog.IPFSLog
		var lerr error
		returned, dump := callHang(cs, time.Second, func() { loaded, lerr = w2.LoadManifest(mc, 0, &hx.LoadOpts{}) })
		run.Count("placement_loads", 1)
		run.Count("placement_manifest", 1)
		d := det("position", "manifest", "loader", "manifest", "edits", it.Edits)
		wit := map[string]any{"edits": it.Edits, "block_hex": it.RawHex[:minInt(len(it.RawHex), 600)]}
		if !returned {
			if dump != "" {
				wit["goroutine_dump"] = clipStr(dump, 6000)
				run.Violate("C12/load-hung", d, wit, "loading from a hostile manifest (%s) never returned", it.Edits)
			} else {
				run.Inconclusive("manifest placement load hit the wall-clock cap")
			}
			continue
		}
		if lerr == nil && loaded != nil {
			// whatever was decoded must be usable
			if p := safely(func() { _ = loaded.Values(); _ = loaded.Heads(); _ = loaded.ToJSONLog(); _ = loaded.ToSnapshot() }); p != nil {
				run.Violate("C12/panic-use-loaded-log", d, wit, "using a log loaded from a hostile manifest (%s) panicked: %v", it.Edits, p)
			}
			run.Count("hostile_manifest_loaded", 1)
		} else {
			run.Count("hostile_manifest_rejected", 1)
		}
		run.NonTrivial("place/manifest/" + it.Edits)
	}
	run.Eval(1)
}
