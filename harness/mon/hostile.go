package mon

import (
	"context"
	"encoding/base64"
	"encoding/json"
	"fmt"
	"math"
	"math/rand"
	"os"
	"strings"
	"time"

	ipfslog "berty.tech/go-ipfs-log"
	"berty.tech/go-ipfs-log/entry"
	"berty.tech/go-ipfs-log/entry/sorting"
	idp "berty.tech/go-ipfs-log/identityprovider"
	"berty.tech/go-ipfs-log/iface"
	blocks "github.com/ipfs/go-block-format"
	"github.com/ipfs/go-cid"
	cbornode "github.com/ipfs/go-ipld-cbor"
	format "github.com/ipfs/go-ipld-format"
	"github.com/ipfs/go-merkledag"
	mh "github.com/multiformats/go-multihash"

	"verifharness/evid"
	"verifharness/hx"
	"verifharness/model"
	"verifharness/store"
)

// ---------------------------------------------------------------- edits on generic values

type repl struct {
	name string
	val  func() any
	del  bool
}

var big1e5 = strings.Repeat("a", 100000)

func replacements() []repl {
	return []repl{
		{name: "delete", del: true},
		{name: "null", val: func() any { return nil }},
		{name: "int0", val: func() any { return 0 }},
		{name: "int-neg", val: func() any { return -7 }},
		{name: "int-huge", val: func() any { return uint64(1<<64 - 1) }},
		{name: "int-minint", val: func() any { return int64(-1 << 63) }},
		{name: "text", val: func() any { return "x" }},
		{name: "text-empty", val: func() any { return "" }},
		{name: "text-invalid-hex", val: func() any { return "zz" }},
		{name: "text-odd-hex", val: func() any { return "abc" }},
		{name: "text-1e5", val: func() any { return big1e5 }},
		{name: "bytes", val: func() any { return []byte{1, 2, 3} }},
		{name: "bytes-empty", val: func() any { return []byte{} }},
		{name: "array-empty", val: func() any { return []any{} }},
		{name: "array-ints", val: func() any { return []any{1, 2, 3} }},
		{name: "array-nested", val: func() any { return []any{[]any{}, map[string]any{}} }},
		{name: "map-empty", val: func() any { return map[string]any{} }},
		{name: "map-other", val: func() any { return map[string]any{"a": 1, "id": 2, "time": "x"} }},
		{name: "link", val: func() any { return foreignCid("hostile") }},
		{name: "bool", val: func() any { return true }},
		{name: "float", val: func() any { return 1.5 }},
	}
}

var v2Paths = []string{"v", "id", "key", "sig", "hash", "next", "refs", "clock", "clock.id", "clock.time", "payload",
	"identity", "identity.id", "identity.type", "identity.publicKey", "identity.signatures", "identity.signatures.id", "identity.signatures.publicKey",
	"next.0", "refs.0", "enc_links", "enc_links_nonce", "extra"}

var manifestPaths = []string{"id", "heads", "heads.0", "extra"}

var v0Paths = []string{"hash", "id", "payload", "next", "next.0", "v", "clock", "clock.id", "clock.time", "key", "sig", "extra"}

func deepCopy(v any) any {
	switch t := v.(type) {
	case map[string]any:
		o := map[string]any{}
		for k, x := range t {
			o[k] = deepCopy(x)
		}
		return o
	case []any:
		o := make([]any, len(t))
		for i, x := range t {
			o[i] = deepCopy(x)
		}
		return o
	}
	return v
}

// applyEdit sets/deletes path in the generic value (maps and arrays); returns false if the path does not exist.
func applyEdit(root map[string]any, path string, r repl) bool {
	parts := strings.Split(path, ".")
	var cur any = root
	for i, p := range parts {
		last := i == len(parts)-1
		switch c := cur.(type) {
		case map[string]any:
			if last {
				if r.del {
					if _, ok := c[p]; !ok {
						return false
					}
					delete(c, p)
				} else {
					c[p] = r.val()
				}
				return true
			}
			nx, ok := c[p]
			if !ok {
				return false
			}
			cur = nx
		case []any:
			idx := int(p[0] - '0')
			if idx >= len(c) {
				return false
			}
			if last {
				if r.del {
					return false
				}
				c[idx] = r.val()
				return true
			}
			cur = c[idx]
		default:
			return false
		}
	}
	return false
}

// ---------------------------------------------------------------- exercising a decoded entry

func safely(f func()) (p any) {
	defer func() { p = recover() }()
	f()
	return nil
}

// exerciseEntry calls every accessor, comparison and verification on a decoded entry.
func exerciseEntry(e iface.IPFSLogEntry, honest iface.IPFSLogEntry, w *hx.World) (string, any) {
	steps := []struct {
		name string
		f    func()
	}{
		{"getters", func() {
			_ = e.GetPayload()
			_ = e.GetLogID()
			_ = e.GetNext()
			_ = e.GetRefs()
			_ = e.GetV()
			_ = e.GetKey()
			_ = e.GetSig()
			_ = e.GetIdentity()
			_ = e.GetHash()
			_ = e.GetAdditionalData()
			_ = e.Defined()
		}},
		{"clock", func() {
			c := e.GetClock()
			_ = c.GetTime()
			_ = c.GetID()
			_ = c.Defined()
			_ = c.Compare(honest.GetClock())
			_ = honest.GetClock().Compare(c)
		}},
		{"comparators", func() {
			for _, f := range []func(a, b iface.IPFSLogEntry) (int, error){sorting.LastWriteWins, sorting.FirstWriteWins, sorting.SortByEntryHash, sorting.Compare,
				sorting.NoZeroes(sorting.LastWriteWins), hx.RevHash} {
				_, _ = f(e, honest)
				_, _ = f(honest, e)
				_, _ = f(e, e)
			}
		}},
		{"sort", func() {
			sorting.Sort(sorting.SortByEntryHash, []iface.IPFSLogEntry{e, honest, e}, false)
			sorting.Sort(sorting.Compare, []iface.IPFSLogEntry{honest, e}, true)
		}},
		{"equals/isparent/isvalid/copy", func() {
			_ = e.Equals(honest)
			_ = honest.Equals(e)
			_ = e.IsParent(honest)
			_ = honest.IsParent(e)
			_ = e.IsValid()
			c := e.Copy()
			_ = c.GetClock()
			_ = entry.FindChildren(e, []iface.IPFSLogEntry{honest, e})
		}},
		{"tohashable", func() { _, _ = entry.ToHashable(e) }},
		{"verify-cbor", func() { _ = e.Verify(w.Idents[0].Provider, hx.IO("cbor")) }},
		{"verify-link", func() { _ = e.Verify(w.Idents[0].Provider, hx.IO("link")) }},
		{"verify-pb", func() { _ = e.Verify(w.Idents[0].Provider, hx.IO("pb")) }},
		{"tomultihash", func() { _, _ = entry.ToMultihashWithIO(context.Background(), e, store.New().API(), nil, hx.IO("cbor")) }},
		{"normalize+jsonable", func() { _ = entry.Normalize(e, nil) }},
		{"log-of-it", func() {
			id := e.GetLogID()
			if id == "" {
				id = "x"
			}
			lo := &ipfslog.LogOptions{ID: id, Entries: entry.NewOrderedMapFromEntries([]iface.IPFSLogEntry{e}), Heads: []iface.IPFSLogEntry{e}}
			src, err := ipfslog.NewLog(w.Store.API(), w.Idents[0], lo)
			if err != nil {
				return
			}
			_ = src.Values()
			_ = src.Heads()
			_ = src.ToString(nil)
			_ = src.ToSnapshot()
			dst, _ := ipfslog.NewLog(w.Store.API(), w.Idents[0], &ipfslog.LogOptions{ID: id})
			_, _ = dst.Join(src, -1)
			ch := make(chan iface.IPFSLogEntry, 8)
			_ = src.Iterator(&iface.IteratorOptions{}, ch)
		}},
	}
	for _, s := range steps {
		if p := safely(s.f); p != nil {
			return s.name, p
		}
	}
	return "", nil
}

type hostile struct {
	Template string `json:"template"` // v2 | v1 | manifest | v0
	Edits    string `json:"edits"`
	raw      []byte
	c        cid.Cid
	Outcome  string `json:"outcome"` // decode-error | decoded | ipld-error
}

func cborBlock(v any) ([]byte, cid.Cid, error) {
	var n *cbornode.Node
	var err error
	if p := safely(func() { n, err = cbornode.WrapObject(v, mh.SHA2_256, -1) }); p != nil {
		return nil, cid.Undef, fmt.Errorf("encoder panic: %v", p)
	}
	if err != nil {
		return nil, cid.Undef, err
	}
	return n.RawData(), n.Cid(), nil
}

func pbBlock(jsonBytes []byte) ([]byte, cid.Cid) {
	n := &merkledag.ProtoNode{}
	n.SetData(jsonBytes)
	return n.RawData(), n.Cid()
}

// tryDecode runs one hostile block through decode + accessors under recover.
func tryDecode(run *evid.Run, hb *hostile, w *hx.World, honest iface.IPFSLogEntry, kind string) {
	run.Count("hostile_blocks", 1)
	run.Count("hostile_"+hb.Template, 1)
	wit := func() map[string]any {
		return map[string]any{"template": hb.Template, "edits": hb.Edits, "block_hex": fmt.Sprintf("%x", clip(hb.raw, 400)), "generator": kind}
	}
	node, err := store.Decode(hb.c, hb.raw)
	if err != nil {
		hb.Outcome = "ipld-error"
		run.Count("outcome_ipld-error", 1)
		return
	}
	provider := w.Idents[0].Provider
	d := det("template", hb.Template, "edits", hb.Edits, "generator", kind)
	switch hb.Template {
	case "manifest":
		var jl *iface.JSONLog
		var derr error
		if p := safely(func() { jl, derr = hx.IO("cbor").DecodeRawJSONLog(node) }); p != nil {
			run.Violate("C12/panic-decode-manifest", d, wit(), "decoding a manifest panicked: %v (edits: %s)", p, hb.Edits)
			hb.Outcome = "panic"
			return
		}
		if derr != nil {
			hb.Outcome = "decode-error"
		} else {
			hb.Outcome = "decoded"
			if p := safely(func() {
				_ = jl.ID
				for _, c := range jl.Heads {
					_ = c.String()
					_ = c.Defined()
				}
			}); p != nil {
				run.Violate("C12/panic-use-manifest", d, wit(), "using a decoded manifest panicked: %v", p)
			}
		}
	default:
		// every codec is handed every block that is a valid IPLD node: a stored log can link to blocks of any codec
		ios := []string{"cbor", "link", "pb"}
		if hb.Template == "v0" {
			ios = []string{"pb", "cbor", "link"}
		}
		for _, ion := range ios {
			var e iface.IPFSLogEntry
			var derr error
			if p := safely(func() { e, derr = hx.IO(ion).DecodeRawEntry(node, hb.c, provider) }); p != nil {
				d2 := det("template", hb.Template, "edits", hb.Edits, "generator", kind, "codec", ion)
				run.Violate("C12/panic-decode-entry", d2, wit(), "decoding an entry block panicked (%s codec): %v (edits: %s)", ion, p, hb.Edits)
				hb.Outcome = "panic"
				return
			}
			if derr != nil || e == nil {
				if hb.Outcome == "" {
					hb.Outcome = "decode-error"
				}
				continue
			}
			hb.Outcome = "decoded" // by at least one codec
			if step, p := exerciseEntry(e, honest, w); p != nil {
				d2 := det("template", hb.Template, "edits", hb.Edits, "generator", kind, "codec", ion, "call", step)
				run.Violate("C12/panic-use-entry", d2, wit(), "%s on a successfully decoded entry panicked: %v (edits: %s)", step, p, hb.Edits)
				hb.Outcome = "panic"
				return
			}
		}
	}
	run.Count("outcome_"+hb.Outcome, 1)
}

// ---------------------------------------------------------------- C12

func CheckC12(run *evid.Run) {
	run.Rule = "three seeded generators. (1) structured: the generic CBOR value of a valid v2 entry, a v1 entry, a manifest and the JSON of a v0 entry inside a protobuf node, with single edits ENUMERATED EXHAUSTIVELY (every field path incl. clock.*, identity.*, identity.signatures.*, next[0], refs[0], enc_links*, an extra field x 21 replacement kinds: delete, null, ints incl. negative/2^64-1/minint, texts incl. invalid/odd hex and 10^5 chars, bytes, arrays, maps, link, bool, float) and seeded 2-4-edit combinations, plus the empty map and non-map roots; (2) byte level: every truncation offset and seeded bit flips of valid blocks, random bytes; each block is decoded under recover with the real codecs (default, link-key, legacy) and every accessor / comparator / Sort / Equals / IsParent / IsValid / Copy / ToHashable / Verify (3 codecs) / ToMultihash / Join / Iterator is called on whatever decodes; (3) placement: 1-9 hostile blocks that do not decode replace the head / an interior entry / a root / a reference-only target (and further seeded positions) of a stored log which is then loaded through all four loaders with concurrency in {default,1,2,3,8} in a child process (journal, state-based hang detector); also chains of legacy v0 protobuf blocks with hostile v0 blocks loaded with the legacy codec, and hostile manifests: the process must survive and the rest of the history (model closure with those blocks undecodable) must load. Non-trivial = block that passes IPLD decoding; distinct = (template, edit path(s), replacement kind(s)) / placement class"
	run.Assumptions = []string{"single-edit matrix is exhaustive over the stated paths x kinds; multi-edits, byte flips and placements are sampled"}
	// (1)+(2) in-process under recover, split over workers by template
	w := hx.NewWorld(run.Seed, 2, "c12", "hash", "cbor")
	l := w.NewLog(0)
	var honest []iface.IPFSLogEntry
	for k := 0; k < 6; k++ {
		e, err := l.Append(w.Ctx, []byte(fmt.Sprintf("honest-%d", k)), &iface.AppendOptions{PointerCount: 8})
		if err != nil {
			run.Broken("cannot build honest log: " + err.Error())
			return
		}
		honest = append(honest, e)
	}
	hon := honest[len(honest)-1]
	raw, _ := w.Store.Raw(hon.GetHash())
	var v2 map[string]any
	{
		var g any
		_ = cbornode.DecodeInto(raw, &g)
		v2 = g.(map[string]any)
	}
	// link-encrypted variant (enc_links fields present)
	wl := hx.NewWorld(run.Seed, 1, "c12", "hash", "link")
	ll := wl.NewLog(0)
	_, _ = ll.Append(wl.Ctx, []byte("a"), nil)
	le, _ := ll.Append(wl.Ctx, []byte("b"), nil)
	lraw, _ := wl.Store.Raw(le.GetHash())
	var v2l map[string]any
	{
		var g any
		_ = cbornode.DecodeInto(lraw, &g)
		v2l = g.(map[string]any)
	}
	v1 := deepCopy(v2).(map[string]any)
	delete(v1, "refs")
	v1["v"] = 1
	mc, _ := l.ToMultihash(w.Ctx)
	mraw, _ := w.Store.Raw(mc)
	var man map[string]any
	{
		var g any
		_ = cbornode.DecodeInto(mraw, &g)
		man = g.(map[string]any)
	}
	v0 := map[string]any{"hash": nil, "id": "A", "payload": "hello", "next": []any{"QmUKMoRrmsYAzQg1nQiD7Fzgpo24zXky7jVJNcZGiSAdhc"}, "v": 0,
		"clock": map[string]any{"id": v0Key, "time": 0}, "key": v0Key, "sig": v0Sig}

	type tmpl struct {
		name  string
		root  map[string]any
		paths []string
	}
	tmpls := []tmpl{{"v2", v2, v2Paths}, {"v2-link", v2l, v2Paths}, {"v1", v1, v2Paths}, {"manifest", man, manifestPaths}, {"v0", v0, v0Paths}}
	mk := func(t tmpl, root map[string]any, edits string) *hostile {
		hb := &hostile{Template: t.name, Edits: edits}
		switch t.name {
		case "v0":
			jb, err := json.Marshal(root)
			if err != nil {
				return nil
			}
			hb.raw, hb.c = pbBlock(jb)
		default:
			var err error
			hb.raw, hb.c, err = cborBlock(root)
			if err != nil {
				return nil
			}
			if t.name == "v2-link" {
				hb.Template = "v2"
			}
		}
		return hb
	}
	var pool []*hostile // blocks kept for the placement stage
	var jobs []func()
	single := 0
	for _, t := range tmpls {
		t := t
		for _, p := range t.paths {
			for _, r := range replacements() {
				p, r := p, r
				root := deepCopy(t.root).(map[string]any)
				if !applyEdit(root, p, r) {
					continue
				}
				hb := mk(t, root, fmt.Sprintf("%s:%s=%s", t.name, p, r.name))
				if hb == nil {
					continue
				}
				single++
				pool = append(pool, hb)
				jobs = append(jobs, func() {
					tryDecode(run, hb, w, hon, "single-edit")
					run.NonTrivialIf(hb.Outcome != "ipld-error", "1/"+hb.Edits)
				})
			}
		}
	}
	run.Extra["single_edits_enumerated"] = single
	// roots that are not entry-shaped at all
	for name, v := range map[string]any{"empty-map": map[string]any{}, "string": "x", "int": 7, "array": []any{1}, "null": nil, "link": foreignCid("r"), "bytes": []byte{1}} {
		raw, c, err := cborBlock(v)
		if err != nil {
			continue
		}
		for _, tn := range []string{"v2", "manifest"} {
			hb := &hostile{Template: tn, Edits: "root=" + name, raw: raw, c: c}
			pool = append(pool, hb)
			jobs = append(jobs, func() {
				tryDecode(run, hb, w, hon, "root")
				run.NonTrivialIf(hb.Outcome != "ipld-error", "root/"+hb.Edits)
			})
		}
	}
	for name, js := range map[string]string{"empty": "{}", "null": "null", "array": "[]", "string": `"x"`, "notjson": "{", "clock-string": `{"clock":"x"}`, "next-int": `{"next":[1],"clock":{"id":"","time":0}}`, "hash-bad": `{"hash":"zz","clock":{"id":"","time":0}}`} {
		raw, c := pbBlock([]byte(js))
		hb := &hostile{Template: "v0", Edits: "json=" + name, raw: raw, c: c}
		pool = append(pool, hb)
		jobs = append(jobs, func() {
			tryDecode(run, hb, w, hon, "root")
			run.NonTrivialIf(hb.Outcome != "ipld-error", "root/"+hb.Edits)
		})
	}
	// hostile plaintexts INSIDE authentic encrypted links (an insider holding the link key): the decrypted CBOR is untrusted too
	{
		key := hx.LinkKey(1)
		plains := map[string][]byte{
			"next=[link(empty bytes)]": {0xa2, 0x64, 'n', 'e', 'x', 't', 0x81, 0xd8, 0x2a, 0x40, 0x64, 'r', 'e', 'f', 's', 0x80},
			"refs=[link(empty bytes)]": {0xa2, 0x64, 'n', 'e', 'x', 't', 0x80, 0x64, 'r', 'e', 'f', 's', 0x81, 0xd8, 0x2a, 0x40},
			"next=[link(00)]":          {0xa1, 0x64, 'n', 'e', 'x', 't', 0x81, 0xd8, 0x2a, 0x41, 0x00},
			"next=[link(01 02)]":       {0xa1, 0x64, 'n', 'e', 'x', 't', 0x81, 0xd8, 0x2a, 0x42, 0x01, 0x02},
			"next=[link(text)]":        {0xa1, 0x64, 'n', 'e', 'x', 't', 0x81, 0xd8, 0x2a, 0x61, 'x'},
			"next=5":                   {0xa1, 0x64, 'n', 'e', 'x', 't', 0x05},
			"next=[1,2]":               {0xa1, 0x64, 'n', 'e', 'x', 't', 0x82, 0x01, 0x02},
			"next=null":                {0xa1, 0x64, 'n', 'e', 'x', 't', 0xf6},
			"empty map":                {0xa0},
			"text":                     {0x61, 'x'},
			"array":                    {0x80},
			"truncated":                {0xa2, 0x64, 'n', 'e'},
			"empty":                    {},
			"clock=null,next=[]":       {0xa2, 0x65, 'c', 'l', 'o', 'c', 'k', 0xf6, 0x64, 'n', 'e', 'x', 't', 0x80},
			"identity={},next=[]":      {0xa2, 0x68, 'i', 'd', 'e', 'n', 't', 'i', 't', 'y', 0xa0, 0x64, 'n', 'e', 'x', 't', 0x80},
		}
		for name, pt := range plains {
			for _, nlen := range []int{24, 23, 25, 0} {
				name, pt, nlen := name, pt, nlen
				nonce := make([]byte, 24)
				for k := range nonce {
					nonce[k] = byte(k + len(name))
				}
				sealed, err := key.SealWithNonce(pt, nonce)
				if err != nil {
					continue
				}
				root := deepCopy(v2l).(map[string]any)
				root["enc_links"] = base64.StdEncoding.EncodeToString(sealed)
				root["enc_links_nonce"] = base64.StdEncoding.EncodeToString(append(nonce, make([]byte, 8)...)[:nlen])
				hb := mk(tmpls[1], root, fmt.Sprintf("v2-link:enc_links=seal(%s),nonce_len=%d", name, nlen))
				if hb == nil {
					continue
				}
				pool = append(pool, hb)
				jobs = append(jobs, func() {
					tryDecode(run, hb, w, hon, "sealed-plaintext")
					run.NonTrivialIf(hb.Outcome != "ipld-error", "s/"+hb.Edits)
				})
			}
		}
	}
	// multi-edits, sampled
	nmulti := pick(run.Tier, 20000, 300000)
	reps := replacements()
	for k := 0; k < nmulti; k++ {
		rng := rand.New(rand.NewSource(run.Seed*48271 + int64(k)))
		t := tmpls[rng.Intn(len(tmpls))]
		root := deepCopy(t.root).(map[string]any)
		var names []string
		for n := 2 + rng.Intn(3); n > 0; n-- {
			p := t.paths[rng.Intn(len(t.paths))]
			r := reps[rng.Intn(len(reps))]
			if applyEdit(root, p, r) {
				names = append(names, p+"="+r.name)
			}
		}
		if len(names) < 2 {
			continue
		}
		hb := mk(t, root, t.name+":"+strings.Join(names, ","))
		if hb == nil {
			continue
		}
		if k%40 == 0 {
			pool = append(pool, hb)
		}
		jobs = append(jobs, func() {
			tryDecode(run, hb, w, hon, "multi-edit")
			run.NonTrivialIf(hb.Outcome != "ipld-error", "m/"+hb.Edits)
		})
	}
	// byte level: truncations at every offset, bit flips, random bytes
	for _, src := range []struct {
		name string
		raw  []byte
		pref cid.Prefix
	}{{"v2", raw, hon.GetHash().Prefix()}, {"manifest", mraw, mc.Prefix()}, {"v2", lraw, le.GetHash().Prefix()}} {
		src := src
		for off := 0; off < len(src.raw); off++ {
			off := off
			jobs = append(jobs, func() {
				b := append([]byte(nil), src.raw[:off]...)
				c, _ := src.pref.Sum(b)
				hb := &hostile{Template: src.name, Edits: fmt.Sprintf("truncate@%d/%d", off, len(src.raw)), raw: b, c: c}
				tryDecode(run, hb, w, hon, "truncation")
				run.NonTrivialIf(hb.Outcome != "ipld-error", "t/"+src.name+"/"+hb.Outcome)
			})
		}
		nflip := pick(run.Tier, 6000, 100000)
		for k := 0; k < nflip; k++ {
			k := k
			jobs = append(jobs, func() {
				rng := rand.New(rand.NewSource(run.Seed*69621 + int64(k)))
				b := append([]byte(nil), src.raw...)
				var desc []string
				for n := 1 + rng.Intn(3); n > 0; n-- {
					p := rng.Intn(len(b))
					b[p] ^= 1 << uint(rng.Intn(8))
					desc = append(desc, fmt.Sprint(p))
				}
				c, _ := src.pref.Sum(b)
				hb := &hostile{Template: src.name, Edits: "bitflip@" + strings.Join(desc, "+"), raw: b, c: c}
				tryDecode(run, hb, w, hon, "bitflip")
				run.NonTrivialIf(hb.Outcome != "ipld-error", "f/"+src.name+"/"+hb.Edits)
			})
		}
	}
	for k := 0; k < pick(run.Tier, 500, 20000); k++ {
		k := k
		jobs = append(jobs, func() {
			rng := rand.New(rand.NewSource(run.Seed*16807 + int64(k)))
			b := make([]byte, rng.Intn(200))
			rng.Read(b)
			pref := hon.GetHash().Prefix()
			tn := "v2"
			if k%3 == 1 {
				tn = "manifest"
			}
			c, _ := pref.Sum(b)
			if k%3 == 2 {
				tn = "v0"
				pn := &merkledag.ProtoNode{}
				pn.SetData(b)
				b, c = pn.RawData(), pn.Cid()
			}
			hb := &hostile{Template: tn, Edits: fmt.Sprintf("random-bytes#%d", k), raw: b, c: c}
			tryDecode(run, hb, w, hon, "random")
		})
	}
	parallel(len(jobs), func(i int) { jobs[i]() })
	run.Eval(len(jobs))
	for _, hb := range pool[:minInt(3, len(pool))] {
		run.Sample(map[string]any{"template": hb.Template, "edits": hb.Edits, "outcome": hb.Outcome, "block_hex": fmt.Sprintf("%x", clip(hb.raw, 120))})
	}
	// (3) placement in child processes: only blocks that did not panic in-process
	var place []*hostile
	for _, hb := range pool {
		// blocks that no codec decodes (they must be skipped); hostile manifests of any outcome (must not crash a load)
		if hb.Outcome == "decode-error" || (hb.Template == "manifest" && hb.Outcome != "panic" && hb.Outcome != "") {
			place = append(place, hb)
		}
	}
	placePool = place
	c12PlaceFile(place)
	total := pick(run.Tier, 800, 10000)
	defer os.Remove(c12PoolPath())
	po := ChildOpts{
		Env: []string{"VERIF_C12_POOL=" + c12PoolPath()},
		OnDeath: func(last map[string]any, tail, kind string) (string, map[string]any) {
			return "C12/process-died-loading", det("kind", kind, "edits", last["edits"], "position", last["position"], "loader", last["loader"], "phase", last["phase"])
		}}
	runCases(run, "C12place", total, true, run.Tier == "thorough", po)
	if run.Tier != "thorough" {
		// a slice of the placement cases again under the race detector (undecodable blocks take the fetcher's error paths)
		runCases(run, "C12place", total/5, true, true, po)
	}
}

var placePool []*hostile

var _ = blocks.NewBlock
var _ format.Node
var _ idp.Interface
var _ model.Set

// ---------------------------------------------------------------- placement stage (child processes)

type placeItem struct {
	Template string `json:"template"`
	Edits    string `json:"edits"`
	RawHex   string `json:"raw"`
}

func c12PoolPath() string {
	if p := os.Getenv("VERIF_C12_POOL"); p != "" {
		return p
	}
	return fmt.Sprintf("%s/c12-pool-%d.json", scratchDir(), os.Getpid())
}

func c12PlaceFile(place []*hostile) {
	var items []placeItem
	for _, hb := range place {
		items = append(items, placeItem{hb.Template, hb.Edits, fmt.Sprintf("%x", hb.raw)})
	}
	b, _ := json.Marshal(items)
	_ = writeFile(c12PoolPath(), b)
}

func init() { registerCases("C12place", c12PlaceCase) }

var c12Pool []placeItem

func c12PlaceCase(run *evid.Run, i int, j *Journal) {
	if c12Pool == nil {
		b, err := readFile(c12PoolPath())
		if err != nil || json.Unmarshal(b, &c12Pool) != nil || len(c12Pool) == 0 {
			run.Broken("placement pool missing")
			return
		}
	}
	rng := rand.New(rand.NewSource(run.Seed*279470273 + int64(i)))
	var cborItems, v0Items, manItems []placeItem
	for _, it := range c12Pool {
		switch it.Template {
		case "v0":
			v0Items = append(v0Items, it)
		case "manifest":
			manItems = append(manItems, it)
		default:
			cborItems = append(cborItems, it)
		}
	}
	if i%5 == 3 && len(v0Items) > 0 {
		c12PlaceV0(run, i, rng, v0Items, j)
		return
	}
	if i%5 == 4 && len(manItems) > 0 {
		c12PlaceManifest(run, i, rng, manItems, j)
		return
	}
	c12Pool := cborItems
	// (a third of the stored histories are written with a link key: their blocks are decoded - several at a time, by
	// the fetcher's workers - through the sealed-link path)
	h := hx.Gen(run.Seed, i, hx.GenOpts{MaxSteps: 30, Orders: []string{"hash"}, MaxReplicas: 4, Codecs: []string{"cbor", "cbor", "link"}})
	for k := range h.Steps {
		if h.Steps[k].Op == "append" && (rng.Intn(2) == 0 || h.Codec == "link") {
			h.Steps[k].PC = 16
		}
	}
	run.Count("placement_histories_codec_"+h.Codec, 1)
	x := hx.NewExec(h)
	for k := range h.Steps {
		x.Do(k)
	}
	for r, l := range x.Logs {
		src := hx.Observe(l)
		if len(src.Set) < 3 {
			continue
		}
		keys := src.Set.Keys()
		if (i+r)%6 == 1 {
			c12AbsurdClock(run, i, r, rng, x, l, src, j)
			continue
		}
		// position classes
		pos := []string{"head", "interior", "root", "ref-target"}[rng.Intn(4)]
		victim := ""
		switch pos {
		case "head":
			victim = src.Heads[rng.Intn(len(src.Heads))]
		case "root":
			for _, k := range keys {
				if len(src.Set[k].Next) == 0 {
					victim = k
					break
				}
			}
		case "ref-target":
			for _, k := range keys {
				if len(src.Set[k].Refs) > 0 {
					victim = src.Set[k].Refs[rng.Intn(len(src.Set[k].Refs))]
					break
				}
			}
		}
		if victim == "" {
			pos = "interior"
			victim = keys[rng.Intn(len(keys))]
		}
		item := c12Pool[rng.Intn(len(c12Pool))]
		raw := mustHex(item.RawHex)
		vc, _ := cid.Decode(victim)
		cs := x.W.Store.Clone()
		cs.SetReplace(vc, raw)
		bad := map[string]bool{victim: true}
		// "such blocks": often more than one hostile block in the same stored history
		nExtra := []int{0, 0, 1, 2, 4, 8}[rng.Intn(6)]
		for k := 0; k < nExtra; k++ {
			v2 := keys[rng.Intn(len(keys))]
			it2 := c12Pool[rng.Intn(len(c12Pool))]
			c2, _ := cid.Decode(v2)
			cs.SetReplace(c2, mustHex(it2.RawHex))
			bad[v2] = true
		}
		conc := []int{0, 0, 1, 2, 3, 8}[rng.Intn(6)]
		// the manifest has to be published before the store is cloned for each loader
		mhc, merr := l.ToMultihash(x.W.Ctx)
		if merr == nil {
			if b, ok := x.W.Store.Raw(mhc); ok {
				cs.PutRaw(mhc, b)
			}
		}
		w2 := *x.W
		w2.Store = cs
		for _, loader := range hx.Loaders {
			if loader == "hash" && len(src.Heads) != 1 {
				continue
			}
			j.Log(map[string]any{"case": i, "edits": item.Edits, "position": pos, "loader": loader, "victim": victim, "block_hex": item.RawHex[:minInt(len(item.RawHex), 600)]})
			var loaded *ipfslog.IPFSLog
			var err error
			heads := l.Heads().Slice()
			// half of the loads are watched through the progress channel: a notification must be an entry
			var prog chan iface.IPFSLogEntry
			progNil, progN := 0, 0
			progDone := make(chan struct{})
			if (i+r)%2 == 1 {
				prog = make(chan iface.IPFSLogEntry, 4)
				go func() {
					defer close(progDone)
					for e := range prog {
						progN++
						if e == nil || !e.Defined() {
							progNil++
						}
					}
				}()
			} else {
				close(progDone)
			}
			returned, dump := callHang(cs, time.Second, func() {
				switch loader {
				case "manifest":
					loaded, err = w2.LoadManifest(mhc, 0, &hx.LoadOpts{Concurrency: conc, Progress: prog})
				case "json":
					loaded, err = w2.LoadJSON(l.ToJSONLog(), 0, &hx.LoadOpts{Concurrency: conc, Progress: prog})
				case "entries":
					loaded, err = w2.LoadEntries(heads, 0, &hx.LoadOpts{Concurrency: conc, Progress: prog})
				case "hash":
					if (i+r)%2 == 0 {
						// a caller that does not name the log (the id is optional): whatever the requested block is
						lo := w2.LogOpts("")
						loaded, err = ipfslog.NewFromEntryHash(w2.Ctx, cs.API(), w2.Idents[0], heads[0].GetHash(), lo, &ipfslog.FetchOptions{Concurrency: conc})
					} else {
						loaded, err = w2.LoadHash(heads[0].GetHash(), 0, &hx.LoadOpts{Concurrency: conc})
					}
				}
			})
			run.Count("placement_loads", 1)
			run.Count("placement_"+pos, 1)
			d := det("position", pos, "loader", loader, "edits", item.Edits, "hostile_blocks", len(bad), "concurrency", conc)
			run.Count(fmt.Sprintf("placement_with_%d_hostile_blocks", len(bad)), 1)
			wit := func() map[string]any {
				m := histSample(h)
				m["placement"] = map[string]any{"replica": r, "position": pos, "victim": victim, "edits": item.Edits, "loader": loader, "block_hex": item.RawHex[:minInt(len(item.RawHex), 600)]}
				return m
			}
			if returned && prog != nil {
				close(prog)
				<-progDone
				run.Count("placement_loads_watched_through_the_progress_channel", 1)
				if progNil > 0 {
					run.Violate("C12/progress-not-an-entry", d, wit(), "%d of %d progress notifications of a load around hostile blocks were nil / undefined entries (a consumer using them crashes)", progNil, progN)
				}
			}
			if !returned {
				if dump == "" {
					run.Inconclusive("placement load did not return within the wall-clock cap")
				} else {
					w := wit()
					w["goroutine_dump"] = clipStr(dump, 8000)
					run.Violate("C12/load-hung", d, w, "loading a log with one hostile block (%s at %s) never returned although the store is quiescent", item.Edits, pos)
				}
				continue
			}
			if err != nil || loaded == nil {
				run.Violate("C12/load-failed", d, wit(), "loading a log with one hostile block (%s at %s) failed instead of skipping it: %v", item.Edits, pos, err)
				continue
			}
			want := model.FetchReach(src.Set, src.Heads, bad, nil)
			if loader == "entries" {
				for _, hd := range src.Heads {
					want[hd] = src.Set[hd]
				}
			}
			got := hx.Observe(loaded)
			if !model.SameKeys(got.Set, want) {
				run.Violate("C12/rest-not-loaded", d, wit(), "log with hostile block %s at %s (%s loader): loaded %d entries, the remaining history has %d", item.Edits, pos, loader, len(got.Set), len(want))
			} else if loader != "manifest" && loader != "entries" {
				// "loads the remaining history": everything that was loaded must be IN the log's view - the history
				// below a skipped block hangs off a head of its own (heads = entries nobody names as predecessor)
				if !model.EqualAsSets(got.Heads, model.Heads(got.Set)) || len(got.Values) != len(got.Set) {
					run.Violate("C12/rest-not-in-view", d, wit(), "log with hostile block %s at %s (%s loader): %d entries were loaded but the view has %d; heads %v, unreferenced entries %v", item.Edits, pos, loader, len(got.Set), len(got.Values), hx.SortedShorts(got.Heads), hx.Shorts(model.Heads(got.Set)))
				}
			}
			// the log loaded around the hostile blocks (its index may hold entries that no longer hang off its heads)
			// must keep working: reads, an append, and merges with every kind of size bound, each on a copy
			j.Log(map[string]any{"case": i, "edits": item.Edits, "position": pos, "loader": loader, "victim": victim, "phase": "use-after-load"})
			nv, nl := len(got.Values), got.Len
			sizes := []int{-1, 0, 1, nv, nv + 1, (nv + nl) / 2, nl - 1, nl, nl + 1}
			if nv == nl {
				sizes = []int{-1, []int{0, 1, nl - 1, nl, nl + 1}[rng.Intn(5)]}
			}
			for _, size := range sizes {
				if size < -1 {
					continue
				}
				lo := w2.LogOpts(w2.LogID)
				lo.Entries = loaded.GetEntries()
				lo.Heads = loaded.Heads().Slice()
				cp, cerr := ipfslog.NewLog(cs.API(), x.W.Idents[0], lo)
				if cerr != nil {
					continue
				}
				other := w2.NewLog(0)
				if size%2 == 0 {
					_, _ = other.Append(x.W.Ctx, []byte("other"), nil)
				}
				if p := safely(func() {
					_, _ = cp.Join(other, size)
					_ = cp.Values()
					it := make(chan iface.IPFSLogEntry, 1+cp.Len())
					_ = cp.Iterator(&ipfslog.IteratorOptions{}, it)
					_, _ = cp.Append(x.W.Ctx, []byte("after"), nil)
					_ = cp.ToString(nil)
				}); p != nil {
					run.Violate("C12/panic-using-loaded-log", det("position", pos, "loader", loader, "size_bound", sizeClass(size, nv, nl)), wit(),
						"a log loaded around hostile blocks (%d entries in its index, %d in its linearised view) panicked in Join(size=%d)/Values/Iterator/Append/ToString: %v", nl, nv, size, p)
					break
				}
				run.Count("uses_of_logs_loaded_around_hostile_blocks", 1)
			}
			run.NonTrivial(fmt.Sprintf("place/%s/%s/%s", pos, loader, item.Edits))
		}
		if i%8 == 1 {
			c12ManyBadHeads(run, i, r, rng, x, l, src, c12Pool, j)
		}
	}
	run.Eval(1)
}

func sizeClass(size, nv, nl int) string {
	switch {
	case size < 0:
		return "none"
	case size < nv:
		return "<values"
	case size == nv:
		return "=values"
	case size < nl:
		return "between values and index"
	case size == nl:
		return "=index"
	}
	return ">index"
}

// c12AbsurdClock: a HEAD block that DECODES - a copy of the real head whose clock time is absurd (negative, the smallest,
// the largest integer). It is the first entry an unlimited load sees. Nothing is demanded of what is loaded; the process
// must survive and every loader must return.
func c12AbsurdClock(run *evid.Run, i, r int, rng *rand.Rand, x *hx.Exec, l *ipfslog.IPFSLog, src *hx.Obs, j *Journal) {
	victim := src.Heads[rng.Intn(len(src.Heads))]
	vc, _ := cid.Decode(victim)
	orig, ok := x.W.Store.Raw(vc)
	if !ok {
		return
	}
	var g any
	if err := cbornode.DecodeInto(orig, &g); err != nil {
		return
	}
	m, ok := g.(map[string]any)
	if !ok {
		return
	}
	clk, ok := m["clock"].(map[string]any)
	if !ok {
		return
	}
	name := []string{"-3", "-1", "min-int64", "max-int64", "max-int32+1"}[rng.Intn(5)]
	clk["time"] = map[string]any{"-3": -3, "-1": -1, "min-int64": int64(math.MinInt64), "max-int64": uint64(math.MaxInt64), "max-int32+1": 1 << 31}[name]
	var n *cbornode.Node
	var err error
	if p := safely(func() { n, err = cbornode.WrapObject(m, mh.SHA2_256, -1) }); p != nil || err != nil || n == nil {
		return
	}
	cs := x.W.Store.Clone()
	cs.SetReplace(vc, n.RawData())
	mhc, merr := l.ToMultihash(x.W.Ctx)
	if merr == nil {
		if b, ok := x.W.Store.Raw(mhc); ok {
			cs.PutRaw(mhc, b)
		}
	}
	w2 := *x.W
	w2.Store = cs
	heads := l.Heads().Slice()
	for _, loader := range hx.Loaders {
		if loader == "hash" && len(src.Heads) != 1 {
			continue
		}
		conc := []int{0, 1, 2}[rng.Intn(3)]
		j.Log(map[string]any{"case": i, "phase": "absurd-clock-head", "clock_time": name, "loader": loader, "victim": victim, "block_hex": fmt.Sprintf("%x", n.RawData())[:minInt(2*len(n.RawData()), 600)]})
		returned, dump := callHang(cs, time.Second, func() {
			switch loader {
			case "manifest":
				_, _ = w2.LoadManifest(mhc, 0, &hx.LoadOpts{Concurrency: conc, NoExplicit: true})
			case "json":
				_, _ = w2.LoadJSON(l.ToJSONLog(), 0, &hx.LoadOpts{Concurrency: conc, NoExplicit: true})
			case "entries":
				_, _ = w2.LoadEntries(heads, 0, &hx.LoadOpts{Concurrency: conc, NoExplicit: true})
			case "hash":
				_, _ = w2.LoadHash(heads[0].GetHash(), 0, &hx.LoadOpts{Concurrency: conc, NoExplicit: true})
			}
		})
		run.Count("loads_of_a_log_whose_head_has_an_absurd_clock_time", 1)
		if !returned {
			wt := histSample(x.H)
			wt["goroutines"] = dump
			run.Violate("C12/load-hung", det("scenario", "absurd-clock-head", "clock_time", name, "loader", loader), wt, "loading a log whose head block carries the clock time %s never returned (%s loader)", name, loader)
			return
		}
	}
	run.Eval(1)
	run.NonTrivial("absurd-clock/" + name)
}

// c12ManyBadHeads: a published head list in which many hostile blocks are interleaved with the real heads,
// fetched with high concurrency, several times: the real history must load completely every time.
func c12ManyBadHeads(run *evid.Run, i, r int, rng *rand.Rand, x *hx.Exec, l *ipfslog.IPFSLog, src *hx.Obs, pool []placeItem, j *Journal) {
	cs := x.W.Store.Clone()
	nbad := 40 + rng.Intn(200)
	var heads []cid.Cid
	real := cidsOf(src.Heads)
	for k := 0; k < nbad; k++ {
		it := pool[rng.Intn(len(pool))]
		raw := mustHex(it.RawHex)
		// distinct identifiers for identical hostile bytes: the store serves by identifier
		c := foreignCid(fmt.Sprintf("badhead-%d-%d-%d", run.Seed, i, k))
		cs.PutRaw(c, raw)
		heads = append(heads, c)
		if k%(1+nbad/(len(real)+1)) == 0 && len(real) > 0 {
			heads = append(heads, real[0])
			real = real[1:]
		}
	}
	heads = append(heads, real...)
	w2 := *x.W
	w2.Store = cs
	want := model.FetchReach(src.Set, src.Heads, nil, nil)
	rounds := 6
	for round := 0; round < rounds; round++ {
		conc := []int{0, 8, 16, 32, 64}[rng.Intn(5)]
		j.Log(map[string]any{"case": i, "phase": "many-bad-heads", "bad_heads": nbad, "round": round, "concurrency": conc})
		var loaded *ipfslog.IPFSLog
		var err error
		returned, dump := callHang(cs, time.Second, func() {
			loaded, err = w2.LoadJSON(&iface.JSONLog{ID: x.W.LogID, Heads: heads}, 0, &hx.LoadOpts{Concurrency: conc})
		})
		run.Count("loads_with_many_hostile_heads", 1)
		d := det("scenario", "many-bad-heads", "concurrency", conc)
		wit := func() map[string]any {
			m := histSample(x.H)
			m["scenario"] = fmt.Sprintf("replica r%d published with %d hostile blocks interleaved among its %d heads, JSON loader, concurrency %d, round %d", r, nbad, len(src.Heads), conc, round)
			return m
		}
		if !returned {
			if dump == "" {
				run.Inconclusive("load with many hostile heads did not return within the wall-clock cap")
			} else {
				w := wit()
				w["goroutine_dump"] = clipStr(dump, 8000)
				run.Violate("C12/load-hung", d, w, "loading a head list with %d hostile blocks never returned although the store is quiescent", nbad)
			}
			return
		}
		if err != nil || loaded == nil {
			run.Violate("C12/load-failed", d, wit(), "loading a head list with %d hostile blocks failed instead of skipping them: %v", nbad, err)
			return
		}
		if got := hx.Observe(loaded); !model.SameKeys(got.Set, want) {
			run.Violate("C12/rest-not-loaded", d, wit(), "head list with %d hostile blocks (concurrency %d): loaded %d entries, the real history has %d", nbad, conc, len(got.Set), len(want))
			return
		}
	}
}
