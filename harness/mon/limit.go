package mon

import (
	"fmt"
	"math/rand"
	"time"

	ipfslog "berty.tech/go-ipfs-log"
	"berty.tech/go-ipfs-log/entry"
	"berty.tech/go-ipfs-log/iface"
	"github.com/ipfs/go-cid"

	"verifharness/evid"
	"verifharness/hx"
	"verifharness/model"
)

// ---------------------------------------------------------------- C10

func CheckC10(run *evid.Run) {
	total := pick(run.Tier, 300, 4000)
	run.Rule = "seeded stored logs (forked DAGs with skip references, pointer counts up to 64) x four loaders (manifest, JSON head list, k supplied entries, single entry hash - heads and arbitrary entries) x limits n in 0..size+2 (a seeded third of them in quick) x concurrency {1,2,8,32} x gated release policy; count must be min(max(n,k),size) with size = closure of the start set over next+refs, no duplicates, all supplied entries present, no omitted entry strictly more recent (time, clock id) than a returned non-supplied one, and - when clocks are distinct - two runs that differ only in concurrency / arrival order must return the same set. Non-trivial = forked log (>=2 heads seen) with 0 < n < size; distinct = (shape digest, loader, n class, policy)"
	runCases(run, "C10", total, true, run.Tier == "thorough", ChildOpts{})
}

func init() { registerCases("C10", c10Case) }

func c10Case(run *evid.Run, i int, j *Journal) {
	rng := rand.New(rand.NewSource(run.Seed*5915587 + int64(i)))
	h := hx.Gen(run.Seed, i, hx.GenOpts{MaxSteps: pick(run.Tier, 30, 50), Orders: []string{"default", "hash", "fww"}, MaxReplicas: 4,
		HugeOften: true,
		Failures:  i%3 == 2,                                                // refused operations, forks, and (an eighth of those) replicas whose clocks start far ahead: gaps in the clock values
		Codecs:    []string{[]string{"cbor", "cbor", "cbor", "link"}[i%4]}, // a same-key reader loads length-limited too
		Shapes:    []string{"mixed", "widefork", "diamond", "lopsided", "overlap", "ring"}})
	run.Count("cases_codec_"+h.Codec, 1)
	for k := range h.Steps {
		if h.Steps[k].Op == "append" && rng.Intn(2) == 0 {
			h.Steps[k].PC = []int{4, 16, 64}[rng.Intn(3)]
		}
	}
	x := hx.NewExec(h)
	forked := false
	for k := range h.Steps {
		x.Do(k)
		forked = forked || x.Logs[h.Steps[k].R].Heads().Len() > 1
	}
	for r, l := range x.Logs {
		src := hx.Observe(l)
		if len(src.Set) == 0 {
			continue
		}
		distinct := model.DistinctClocks(src.Set)
		ents := map[string]iface.IPFSLogEntry{}
		for _, e := range l.GetEntries().Slice() {
			ents[e.GetHash().String()] = e
		}
		keys := src.Set.Keys()
		shape := model.ShapeDigest(src.Set)
		for _, loader := range hx.Loaders {
			// start set
			var start []string
			switch loader {
			case "manifest", "json":
				start = src.Heads
			case "entries":
				if rng.Intn(2) == 0 {
					start = src.Heads
				} else {
					for _, p := range rng.Perm(len(keys))[:1+rng.Intn(minInt(3, len(keys)))] {
						start = append(start, keys[p])
					}
				}
			case "hash":
				if len(src.Heads) == 1 && rng.Intn(2) == 0 {
					start = src.Heads
				} else {
					start = []string{keys[rng.Intn(len(keys))]}
				}
			}
			k := 0
			if loader == "entries" {
				k = len(start)
			} else if loader == "hash" {
				k = 1
			}
			clos := model.Closure(src.Set, start)
			size := len(clos)
			var mh cid.Cid
			if loader == "manifest" {
				var err error
				if mh, err = l.ToMultihash(x.W.Ctx); err != nil {
					run.Violate("C10/publish", det(), histSample(h), "ToMultihash failed: %v", err)
					continue
				}
			}
			for n := 0; n <= size+2; n++ {
				if run.Tier != "thorough" && rng.Intn(3) != 0 && n != 0 && n != size+1 {
					continue
				}
				var first map[string]bool
				var firstDesc string
				dupSources := loader == "entries" && rng.Intn(3) == 0
				sliceRewritten := false
				for rep := 0; rep < 2; rep++ {
					conc := []int{1, 2, 8, 32}[rng.Intn(4)]
					pol := policies[rng.Intn(len(policies))]
					if rep == 0 && rng.Intn(3) == 0 {
						pol = "ungated"
					}
					nn := n
					lo := &hx.LoadOpts{Length: &nn, Concurrency: conc}
					desc := fmt.Sprintf("r%d loader=%s start=%v n=%d k=%d size=%d concurrency=%d policy=%s", r, loader, hx.Shorts(start), n, k, size, conc, pol)
					j.Log(map[string]any{"case": i, "desc": desc})
					var loaded *ipfslog.IPFSLog
					var err error
					load := func() {
						switch loader {
						case "manifest":
							loaded, err = x.W.LoadManifest(mh, 0, lo)
						case "json":
							loaded, err = x.W.LoadJSON(&iface.JSONLog{ID: x.W.LogID, Heads: cidsOf(start)}, 0, lo)
						case "entries":
							// the caller's slice: sometimes with spare capacity, sometimes naming an entry twice
							se := make([]iface.IPFSLogEntry, 0, 64)
							for _, s := range start {
								se = append(se, ents[s])
							}
							if dupSources {
								se = append(se, se[len(se)-1], se[0])
							}
							orig := append([]iface.IPFSLogEntry(nil), se...)
							loaded, err = ipfslog.NewFromEntry(x.W.Ctx, x.W.Store.API(), x.W.Idents[0], se, x.W.LogOpts(x.W.LogID),
								&entry.FetchOptions{Length: lo.Length, Concurrency: lo.Concurrency})
							for q := range orig {
								if se[q] != orig[q] {
									sliceRewritten = true
								}
							}
						case "hash":
							c, _ := cid.Decode(start[0])
							loaded, err = x.W.LoadHash(c, 0, lo)
						}
					}
					var pan any
					returned, dump := true, ""
					guarded := func() {
						returned, dump = callHang(x.W.Store, time.Second, func() {
							defer func() { pan = recover() }()
							load()
						})
					}
					od := "ungated"
					if pol == "ungated" {
						guarded()
					} else {
						od, _ = gated(x.W, pol, rng, timesOf(src.Set), setOf(src.Heads), guarded)
					}
					_ = od
					run.Count("limited_loads", 1)
					run.Count("loads_"+loader, 1)
					nclass := "mid"
					switch {
					case n == 0:
						nclass = "zero"
					case n < k:
						nclass = "below-supplied"
					case n >= size:
						nclass = "ge-size"
					}
					d := det("loader", loader, "n_class", nclass, "policy", pol, "start_is_heads", model.EqualAsSets(start, src.Heads))
					wit := func() map[string]any { m := histSample(h); m["load"] = desc; return m }
					if !returned {
						if dump == "" {
							run.Inconclusive("limited load did not return within the wall-clock cap: " + desc)
						} else {
							w := wit()
							w["goroutine_dump"] = clipStr(dump, 8000)
							run.Violate("C10/load-hung", d, w, "limited load never returned although the store is quiescent (%s)", desc)
						}
						continue
					}
					if pan != nil {
						run.Violate("C10/panic", d, wit(), "loader panicked: %v (%s)", pan, desc)
						continue
					}
					if sliceRewritten {
						run.Violate("C10/caller-slice-rewritten", d, wit(), "NewFromEntry rewrote the caller's slice of supplied entries (%s)", desc)
					}
					if dupSources {
						run.Count("loads_with_repeated_source_entries", 1)
					}
					if err != nil || loaded == nil {
						run.Violate("C10/load-error", d, wit(), "loader failed: %v (%s)", err, desc)
						continue
					}
					if nn != n {
						// the load wrote to the limit the caller passed by pointer: a caller that keeps using its options
						// value now loads with another limit than the one it set
						run.Count("caller_limit_changed_by_load", 1)
						if mh2, perr := l.ToMultihash(x.W.Ctx); perr == nil {
							if l2, lerr := x.W.LoadManifest(mh2, 0, lo); lerr == nil && l2 != nil {
								w2 := n
								if len(src.Set) < w2 {
									w2 = len(src.Set)
								}
								if l2.Len() != w2 {
									run.Violate("C10/count", det("loader", "manifest", "n_class", nclass, "sequence", "same options value after a "+loader+" load"), wit(),
										"the caller set a limit of %d; a %s load changed that variable to %d and the next load of the whole log through the same options returned %d entries instead of %d (%s)", n, loader, nn, l2.Len(), w2, desc)
								}
							}
						}
						nn = n
					}
					got := hx.Observe(loaded)
					want := n
					kk := k
					if dupSources {
						kk = k + 2 // the caller supplied k+2 starting entries (two of them repeats): the limit is raised to that number
					}
					if kk > want {
						want = kk
					}
					if size < want {
						want = size
					}
					ret := map[string]bool{}
					for hs := range got.Set {
						ret[hs] = true
					}
					if len(got.Values) != len(got.Set) || hasDup(got.Values) {
						run.Violate("C10/duplicates", d, wit(), "loaded log exposes duplicate entries (%s)", desc)
					}
					if len(got.Set) != want {
						d["delivered"] = map[bool]string{true: "more", false: "fewer"}[len(got.Set) > want]
						run.Violate("C10/count", d, wit(), "loaded %d entries, want min(max(n,k),size)=%d (%s)", len(got.Set), want, desc)
					}
					for hs := range got.Set {
						if _, ok := clos[hs]; !ok {
							run.Violate("C10/foreign", d, wit(), "loaded entry %s is not part of the stored log reachable from the start set (%s)", hx.Short(hs), desc)
						}
					}
					if k > 0 {
						for _, s := range start {
							if !ret[s] {
								run.Violate("C10/supplied-missing", d, wit(), "supplied entry %s missing from the result (%s)", hx.Short(s), desc)
								break
							}
						}
					}
					// most recent others
					sup := map[string]bool{}
					if k > 0 {
						sup = setOf(start)
					}
					var oldestRet *model.E
					for hs := range ret {
						if sup[hs] {
							continue
						}
						if e := clos[hs]; e != nil && (oldestRet == nil || model.CmpClock(e, oldestRet) < 0) {
							oldestRet = e
						}
					}
					if oldestRet != nil {
						for hs, e := range clos {
							if !ret[hs] && model.CmpClock(e, oldestRet) > 0 {
								run.Violate("C10/not-most-recent", d, wit(), "omitted entry %s (t=%d) is strictly more recent than returned %s (t=%d) (%s)", hx.Short(hs), e.Time, hx.Short(oldestRet.Hash), oldestRet.Time, desc)
								break
							}
						}
					}
					if rep == 0 {
						first, firstDesc = ret, desc
					} else if distinct && first != nil && !sameBoolSet(first, ret) {
						run.Violate("C10/schedule-dependent", d, wit(), "two loads differing only in concurrency/arrival order returned different sets: [%s] %d entries vs [%s] %d entries", firstDesc, len(first), desc, len(ret))
					}
					if forked && n > 0 && n < size {
						run.NonTrivial(fmt.Sprintf("%s/%s/%s/%s", shape, loader, nclass, pol))
					}
				}
			}
		}
	}
	run.Eval(1)
	if i < 2 || run.NumSamples() < 2 {
		run.Sample(histSample(h))
	}
}

func sameBoolSet(a, b map[string]bool) bool {
	if len(a) != len(b) {
		return false
	}
	for k := range a {
		if !b[k] {
			return false
		}
	}
	return true
}

func cidsOf(hs []string) []cid.Cid {
	var out []cid.Cid
	for _, h := range hs {
		c, _ := cid.Decode(h)
		out = append(out, c)
	}
	return out
}
