package mon

import (
	"context"
	"encoding/base64"
	"encoding/json"
	"fmt"
	"math/rand"
	"regexp"
	"runtime"
	"sort"
	"strings"
	"syscall"
	"time"

	ipfslog "berty.tech/go-ipfs-log"
	"berty.tech/go-ipfs-log/entry"
	"berty.tech/go-ipfs-log/iface"
	"github.com/ipfs/go-cid"
	cbornode "github.com/ipfs/go-ipld-cbor"
	mh "github.com/multiformats/go-multihash"

	"verifharness/evid"
	"verifharness/hx"
	"verifharness/model"
	"verifharness/store"
)

// goroutineDump returns the stacks of all goroutines.
func goroutineDump() string {
	buf := make([]byte, 1<<20)
	for {
		n := runtime.Stack(buf, true)
		if n < len(buf) {
			return string(buf[:n])
		}
		buf = make([]byte, 2*len(buf))
	}
}

// notAnEntryBlock is a valid IPLD block that is not an entry.
func notAnEntryBlock() []byte {
	n, err := cbornode.WrapObject("this is not an entry", mh.SHA2_256, -1)
	if err != nil {
		panic(err)
	}
	return n.RawData()
}

// callHang runs fn on its own goroutine and decides on STATE whether it hangs:
// hung = fn has not returned although the store has had no request in flight and
// no event for several polls after a grace period. A hard wall-clock cap without
// that state is reported as inconclusive (returned=false, dump="").
func callHang(st *store.Store, grace time.Duration, fn func()) (returned bool, dump string) {
	done := make(chan struct{})
	go func() { defer close(done); fn() }()
	start := time.Now()
	lastSeq, stable := int64(-1), 0
	var lw livelockWatch
	for {
		select {
		case <-done:
			return true, ""
		case <-time.After(50 * time.Millisecond):
		}
		if time.Since(start) < grace {
			continue
		}
		seq := st.Seq()
		if st.Inflight() == 0 && seq == lastSeq {
			stable++
		} else {
			stable = 0
			lw.reset()
		}
		lastSeq = seq
		if stable >= 6 {
			// the store is quiescent - but a library goroutine may simply not have been scheduled yet (decoding a
			// block on a loaded machine): hung if every goroutine inside the library is waiting for something, or
			// if the process keeps BURNING CPU in this state (a spinning goroutine; a starved one burns nothing)
			d := goroutineDump()
			if !libBusy(d) {
				// idle twice, a second apart, with nothing having happened at the store in between
				time.Sleep(time.Second)
				select {
				case <-done:
					return true, ""
				default:
				}
				if d2 := goroutineDump(); !libBusy(d2) && st.Seq() == seq && st.Inflight() == 0 {
					return false, d2
				}
				stable = 3
				continue
			}
			if lw.spinning() {
				return false, "LIVELOCK: store quiescent, call not returned, a library goroutine kept running and the process burned >" + livelockCPU.String() + " of CPU time in that state\n\n" + d
			}
			stable = 3
		}
		if time.Since(start) > 120*time.Second {
			return false, ""
		}
	}
}

// livelockWatch accounts the CPU time the process burns while the store is quiescent and the call under
// observation has not returned. CPU time, unlike elapsed time, does not advance for a goroutine that is merely
// starved on a loaded machine; the harness itself only polls in that state. One case runs at a time per process.
type livelockWatch struct {
	armed bool
	cpu0  time.Duration
}

const livelockCPU = 10 * time.Second

func processCPU() time.Duration {
	var ru syscall.Rusage
	if err := syscall.Getrusage(syscall.RUSAGE_SELF, &ru); err != nil {
		return 0
	}
	return time.Duration(ru.Utime.Nano() + ru.Stime.Nano())
}

func (l *livelockWatch) reset() { l.armed = false }

func (l *livelockWatch) spinning() bool {
	if !l.armed {
		l.armed, l.cpu0 = true, processCPU()
		return false
	}
	return processCPU()-l.cpu0 > livelockCPU
}

// (a bare "semacquire" is NOT a wait for another goroutine of the program: it is what a goroutine shows while the
// runtime holds it - garbage-collection assist, the stop-the-world of the very dump being taken; the sync package's
// own waits have names of their own - sync.Mutex.Lock, sync.RWMutex.RLock, sync.Cond.Wait - or, for sync.WaitGroup.Wait
// under go1.23, go through sync.runtime_Semacquire: see semWait)
var waitingState = regexp.MustCompile(`^goroutine \d+ \[(sync\.|chan |select)`)

// libBusy reports whether some goroutine with a library frame on its stack is running, runnable or in a system
// call (i.e. not waiting for another goroutine): then nothing can be said about a hang yet.
func libBusy(dump string) bool {
	for _, g := range strings.Split(dump, "\n\n") {
		if !strings.Contains(g, "berty.tech/go-ipfs-log") || strings.Contains(g, "mon.goroutineDump") {
			continue
		}
		first := g
		if i := strings.Index(g, "\n"); i > 0 {
			first = g[:i]
		}
		if !waitingState.MatchString(first) && !semWait(first, g) {
			return true
		}
	}
	return false
}

type faultPlan struct {
	Kind    map[string]string `json:"kind"` // hash -> absent|error|garbage|not-entry|hang|removed
	Excl    []string          `json:"excluded"`
	Name    string            `json:"name"`
	Timeout int               `json:"timeout_ms"`
	Conc    int               `json:"concurrency"`
	Policy  string            `json:"policy"`
}

func CheckC11(run *evid.Run) {
	total := pick(run.Tier, 800, 10000)
	run.Rule = "seeded stored logs (C01 generator with reference links) x fault plans: every block independently {ok, absent (not-found), removed from the store, I/O error, undecodable bytes, valid IPLD block that is not an entry, hang until the fetch timeout} with seeded weights, plus directed plans (all heads bad, one head bad, a cut vertex bad, every block bad, only references survive), a seeded excluded set (ShouldExclude), concurrency in {1,2,8,32}, gated release policies (slow blocks completing in adversarial orders) and timeouts {none, 150ms with hanging blocks, generous}; each run in a child process with a journal. Offline checker over the store's event log + result: the call returns (hung = store quiescent, every timeout fired, call not returned), no entry twice, no Get for an excluded hash, no second Get for a hash, result subset of the model's reachability closure through retrievable non-excluded entries, every entry block served OK is in the result, and equality with the closure when no deadline interfered. Non-trivial = plan with >=1 faulty reachable block or exclusion that cuts the DAG; distinct = (shape digest, plan name, fault kinds present, concurrency, policy)"
	run.Assumptions = []string{"termination is decided as quiescent progress: no request outstanding or releasable, all configured timeouts fired, call not returned (goroutine dump as witness); a wall-clock watchdog firing in any other state is inconclusive", "exclusion is driven through ShouldExclude, the mechanism the fetcher consults; the FetchOptions.Exclude entry list is exercised and only counted (the fetcher does not consult it, the head-entries loader re-inserts it)"}
	onDeath := func(last map[string]any, tail, kind string) (string, map[string]any) {
		return "C11/process-died", det("kind", kind, "plan", last["plan"])
	}
	runCases(run, "C11", total, true, run.Tier == "thorough", ChildOpts{OnDeath: onDeath})
	if run.Tier != "thorough" {
		// the fetcher is the most concurrent code of the library: a slice of the same cases again under the race detector
		runCases(run, "C11", total/5, true, true, ChildOpts{OnDeath: onDeath})
	}
}

func init() { registerCases("C11", c11Case) }

func c11Case(run *evid.Run, i int, j *Journal) {
	if i%8 == 3 {
		c11Legacy(run, i, j)
	}
	rng := rand.New(rand.NewSource(run.Seed*8191 + int64(i)*131071))
	h := hx.Gen(run.Seed, i, hx.GenOpts{MaxSteps: pick(run.Tier, 30, 50), Orders: []string{"hash"}, MaxReplicas: 4,
		Codecs: []string{[]string{"cbor", "cbor", "cbor", "link"}[i%4]}}) // a same-key reader fetches sealed links
	run.Count("cases_codec_"+h.Codec, 1)
	for k := range h.Steps {
		if h.Steps[k].Op == "append" && rng.Intn(2) == 0 {
			h.Steps[k].PC = []int{4, 16, 64}[rng.Intn(3)]
		}
		if h.Steps[k].Op == "append" && rng.Intn(6) == 0 {
			h.Steps[k].Payload = "" // an entry with an empty payload is an entry like any other: present, decodable, reachable
			run.Count("appends_with_an_empty_payload", 1)
		}
	}
	x := hx.NewExec(h)
	for k := range h.Steps {
		x.Do(k)
	}
	st := x.W.Store
	notEntry := notAnEntryBlock()
	manifests := map[int]cid.Cid{}
	for r, l := range x.Logs {
		if l.Len() >= 2 {
			if mc, err := l.ToMultihash(x.W.Ctx); err == nil {
				manifests[r] = mc
			}
		}
	}
	for r, l := range x.Logs {
		src := hx.Observe(l)
		if len(src.Set) < 2 {
			continue
		}
		keys := src.Set.Keys()
		shape := model.ShapeDigest(src.Set)
		nplans := 8
		for pn := 0; pn < nplans; pn++ {
			// 0 and negative values are legal inputs meaning "use the default"
			p := faultPlan{Kind: map[string]string{}, Conc: []int{1, 2, 8, 32, 1, 2, 0, -1, -32}[rng.Intn(9)], Policy: policies[rng.Intn(len(policies))]}
			if rng.Intn(3) == 0 {
				p.Policy = "ungated"
			}
			kinds := []string{"absent", "removed", "error", "garbage", "not-entry", "ctx-error"}
			if h.Codec == "link" {
				kinds = append(kinds, "bad-nonce", "bad-nonce") // sealed links whose stored nonce has the wrong length: undecodable
			}
			rk := func() string { return kinds[rng.Intn(len(kinds))] }
			switch pn % 8 {
			case 0:
				p.Name = "independent"
				w := 0.05 + rng.Float64()*0.4
				for _, k := range keys {
					if rng.Float64() < w {
						p.Kind[k] = rk()
					}
				}
			case 1:
				p.Name = "all-heads-bad"
				for _, hd := range src.Heads {
					p.Kind[hd] = rk()
				}
			case 2:
				p.Name = "one-head-bad"
				p.Kind[src.Heads[rng.Intn(len(src.Heads))]] = rk()
			case 3:
				p.Name = "cut-vertex-bad"
				// an interior entry: what lies behind it may only be reachable through references
				k := keys[rng.Intn(len(keys))]
				p.Kind[k] = rk()
				for _, n := range src.Set[k].Next {
					if rng.Intn(2) == 0 {
						p.Kind[n] = rk()
					}
				}
			case 4:
				p.Name = "hang+timeout"
				p.Timeout = 150
				for _, k := range keys {
					switch x := rng.Intn(10); {
					case x == 0:
						p.Kind[k] = "hang"
					case x == 1:
						p.Kind[k] = rk()
					}
				}
			case 5:
				p.Name = "everything-bad"
				for _, k := range keys {
					p.Kind[k] = rk()
				}
			case 6:
				p.Name = "exclusion-only"
			case 7:
				p.Name = "independent+generous-timeout"
				p.Timeout = 60000
				for _, k := range keys {
					if rng.Intn(6) == 0 {
						p.Kind[k] = rk()
					}
				}
			}
			if pn%8 == 6 || rng.Intn(3) == 0 {
				for _, k := range keys {
					if rng.Intn(6) == 0 {
						p.Excl = append(p.Excl, k)
					}
				}
			}
			excl := setOf(p.Excl)
			// install the plan on a clone of the store so that plans do not interfere
			cs := st.Clone()
			cs.SetRecord(true)
			bad := map[string]bool{}
			kindsPresent := map[string]bool{}
			for hs, k := range p.Kind {
				c, _ := cid.Decode(hs)
				bad[hs] = true
				kindsPresent[k] = true
				switch k {
				case "absent":
					cs.SetFault(c, store.Absent)
				case "removed":
					_ = cs.API().Dag().Remove(context.Background(), c)
				case "error":
					cs.SetFault(c, store.Error)
				case "ctx-error":
					cs.SetFault(c, store.CtxError)
				case "garbage":
					cs.SetFault(c, store.Garbage)
				case "not-entry":
					cs.SetReplace(c, notEntry)
				case "bad-nonce":
					if raw, ok := st.Raw(c); ok {
						cs.SetReplace(c, withBadNonce(raw, rng))
					} else {
						cs.SetFault(c, store.Garbage)
					}
				case "hang":
					cs.SetFault(c, store.Hang)
				}
			}
			j.Log(map[string]any{"case": i, "replica": r, "plan": p.Name, "detail": p})
			w2 := *x.W
			w2.Store = cs
			var prog chan iface.IPFSLogEntry
			var progSeen []string
			progNil := 0
			progDone := make(chan struct{})
			if rng.Intn(2) == 0 {
				prog = make(chan iface.IPFSLogEntry)
				go func() {
					for e := range prog {
						if e == nil || !e.Defined() {
							progNil++ // a notification that is not an entry (a consumer calling a method on it would crash)
							continue
						}
						progSeen = append(progSeen, e.GetHash().String())
					}
					close(progDone)
				}()
			} else {
				close(progDone)
			}
			fo := &entry.FetchOptions{Concurrency: p.Conc, Timeout: time.Duration(p.Timeout) * time.Millisecond, IO: x.W.IOv(), ProgressChan: prog,
				ShouldExclude: func(c cid.Cid) bool { return excl[c.String()] }}
			var result []iface.IPFSLogEntry
			returned := make(chan struct{})
			started := time.Now()
			var elapsed time.Duration
			// the caller's own context: none, or one that carries a (much later) deadline of its own
			callerCtx, callerCancel := context.Background(), func() {}
			callerDl := 0
			if rng.Intn(3) == 0 {
				callerDl = 20000
				callerCtx, callerCancel = context.WithTimeout(context.Background(), time.Duration(callerDl)*time.Millisecond)
				run.Count("fetches_under_a_caller_deadline", 1)
			}
			// through the fetcher directly, or through the manifest loader that drives it
			via := "FetchAll"
			mc, havem := manifests[r]
			if havem && prog == nil && rng.Intn(3) == 0 {
				via = "NewFromMultihash"
			} else if len(src.Heads) == 1 && prog == nil && rng.Intn(3) == 0 {
				via = "NewFromEntryHash"
			}
			run.Count("via_"+via, 1)
			var viaErr error
			var viaLen *int // "no limit" is spelled either by leaving the length out or by the explicit -1
			if rng.Intn(2) == 0 {
				m := []int{-1, -1, -2, -100}[rng.Intn(4)] // any negative length means "everything"
				viaLen = &m
			}
			if via == "FetchAll" && rng.Intn(4) == 0 {
				m := []int{-1, -2, -100}[rng.Intn(3)]
				fo.Length = &m
			}
			call := func() {
				defer close(returned)
				defer callerCancel()
				if via == "FetchAll" {
					result = entry.FetchAll(callerCtx, cs.API(), cidsOf(src.Heads), fo)
				} else if via == "NewFromEntryHash" {
					var ll *ipfslog.IPFSLog
					hc, _ := cid.Decode(src.Heads[0])
					ll, viaErr = ipfslog.NewFromEntryHash(callerCtx, cs.API(), x.W.Idents[0], hc, x.W.LogOpts(x.W.LogID),
						&ipfslog.FetchOptions{Concurrency: p.Conc, Timeout: fo.Timeout, ShouldExclude: fo.ShouldExclude, Length: viaLen})
					if ll != nil {
						result = ll.GetEntries().Slice()
					}
				} else {
					var ll *ipfslog.IPFSLog
					ll, viaErr = ipfslog.NewFromMultihash(callerCtx, cs.API(), x.W.Idents[0], mc, x.W.LogOpts(x.W.LogID),
						&ipfslog.FetchOptions{Concurrency: p.Conc, Timeout: fo.Timeout, ShouldExclude: fo.ShouldExclude, Length: viaLen})
					if ll != nil {
						result = ll.GetEntries().Slice()
					}
				}
				elapsed = time.Since(started)
			}
			// hang detector (state based)
			hung := false
			dump := ""
			watch := func() {
				deadline := time.Duration(p.Timeout)*time.Millisecond + 1500*time.Millisecond
				if p.Timeout == 0 || p.Timeout > 10000 {
					deadline = 1500 * time.Millisecond
				}
				lastSeq, stable := int64(-1), 0
				var lw livelockWatch
				for {
					select {
					case <-returned:
						return
					case <-time.After(100 * time.Millisecond):
					}
					if time.Since(started) < deadline {
						continue
					}
					seq := cs.Seq()
					if cs.Inflight() == 0 && seq == lastSeq {
						stable++
					} else {
						stable = 0
					}
					lastSeq = seq
					if stable == 0 {
						lw.reset()
					}
					if stable >= 5 {
						d := goroutineDump()
						switch {
						case !libBusy(d):
							time.Sleep(time.Second)
							select {
							case <-returned:
								return
							default:
							}
							if d2 := goroutineDump(); !libBusy(d2) && cs.Seq() == seq && cs.Inflight() == 0 {
								hung, dump = true, d2
								return
							}
						case lw.spinning():
							hung, dump = true, "LIVELOCK: store quiescent, every timeout fired, call not returned, a library goroutine kept running and the process burned >"+livelockCPU.String()+" of CPU time in that state\n\n"+d
							return
						}
						stable = 3 // a library goroutine is still working (or waiting for a CPU): keep watching
					}
					if time.Since(started) > 120*time.Second {
						return
					}
				}
			}
			if p.Policy == "ungated" {
				go call()
				watch()
			} else {
				gated(&w2, p.Policy, rng, timesOf(src.Set), setOf(src.Heads), func() { go call(); watch() })
			}
			d := det("plan", p.Name, "concurrency", p.Conc, "policy", p.Policy, "timeout", p.Timeout > 0, "via", via, "caller_deadline", callerDl > 0, "codec", h.Codec)
			wit := func() map[string]any {
				m := histSample(h)
				m["replica"] = r
				m["fault_plan"] = p
				m["store_events"] = tailEvents(cs.Events(), 60)
				return m
			}
			run.Count("fetches", 1)
			run.Count("plan_"+p.Name, 1)
			select {
			case <-returned:
			default:
				if hung {
					w := wit()
					w["goroutine_dump"] = clipStr(dump, 12000)
					run.Violate("C11/hang", d, w, "unbounded fetch did not return although the store is quiescent (no request in flight, every timeout fired) - plan %s on r%d", p.Name, r)
				} else {
					run.Inconclusive(fmt.Sprintf("fetch did not return within the wall-clock watchdog while requests were outstanding (case %d plan %s)", i, p.Name))
				}
				continue // the fetch goroutine is abandoned
			}
			if prog != nil {
				close(prog)
			}
			<-progDone
			// ---- offline checks over the event log
			evs := cs.Events()
			calls := map[string]int{}
			served := map[string]bool{}
			for _, e := range evs {
				switch e.Kind {
				case "get-call":
					calls[e.Cid]++
				case "get-ret":
					if e.Res == "ok" {
						served[e.Cid] = true
					}
				}
			}
			// a configured timeout bounds every request: each one is issued under a context whose deadline is at most
			// the timeout away (decided on the contexts the store was handed, not on elapsed time)
			if p.Timeout > 0 {
				for _, e := range evs {
					if _, isEntry := src.Set[e.Cid]; !isEntry {
						continue // e.g. the manifest block, read before the fetch starts
					}
					if e.Kind == "get-call" && e.Res != "ctx-done" && (e.DlMs == 0 || e.DlMs > int64(p.Timeout)) {
						run.Violate("C11/request-not-bounded-by-timeout", d, wit(), "with a timeout of %d ms configured (caller deadline: %d ms) block %s was requested under a context with %s: the configured timeout does not bound the load",
							p.Timeout, callerDl, hx.Short(e.Cid), map[bool]string{true: "no deadline at all", false: fmt.Sprintf("%d ms left until its deadline", e.DlMs)}[e.DlMs == 0])
						break
					}
				}
				run.Count("fetches_with_request_deadlines_checked", 1)
			}
			if via != "FetchAll" && viaErr != nil && len(model.FetchReach(src.Set, src.Heads, bad, excl)) > 0 {
				run.Violate("C11/loader-error", d, wit(), "loading around bad blocks through %s failed although entries are retrievable: %v", via, viaErr)
			}
			// a load with a timeout has ONE deadline: once a request has been ended by it, no request with a live context may follow
			expired := false
			for _, e := range evs {
				if e.Kind == "get-ret" && (e.Res == "hang-ctx" || e.Res == "ctx") {
					expired = true
				}
				if expired && e.Kind == "get-call" && e.Res != "ctx-done" && p.Timeout > 0 && p.Timeout < 10000 {
					run.Violate("C11/request-after-timeout", d, wit(), "block %s was requested with a live context after the load's timeout (%d ms) had already ended another request: the timeout does not bound the whole load", hx.Short(e.Cid), p.Timeout)
					break
				}
			}
			for hs, n := range calls {
				if excl[hs] {
					run.Violate("C11/excluded-requested", d, wit(), "excluded hash %s was requested from the store", hx.Short(hs))
				}
				if n > 1 {
					run.Violate("C11/requested-twice", d, wit(), "hash %s was requested %d times", hx.Short(hs), n)
				}
			}
			got := map[string]bool{}
			for _, e := range result {
				hs := e.GetHash().String()
				if got[hs] {
					run.Violate("C11/duplicate-result", d, wit(), "entry %s returned twice", hx.Short(hs))
				}
				got[hs] = true
			}
			if progNil > 0 {
				run.Violate("C11/progress-not-an-entry", d, wit(), "%d progress notifications were nil / undefined entries (sent for blocks that could not be loaded): a consumer that uses them crashes", progNil)
			}
			if prog != nil {
				sort.Strings(progSeen)
				var rs []string
				for hs := range got {
					rs = append(rs, hs)
				}
				sort.Strings(rs)
				if !model.EqualSeq(progSeen, rs) {
					run.Violate("C11/progress-mismatch", d, wit(), "progress notifications (%d) are not exactly the returned entries (%d)", len(progSeen), len(rs))
				}
			}
			reach := model.FetchReach(src.Set, src.Heads, bad, excl)
			for hs := range got {
				if _, ok := reach[hs]; !ok {
					run.Violate("C11/unreachable-returned", d, wit(), "returned entry %s is not reachable from the heads through retrievable, non-excluded entries", hx.Short(hs))
				}
			}
			for hs := range served {
				if _, isEntry := src.Set[hs]; isEntry && !bad[hs] && !got[hs] {
					run.Violate("C11/served-not-returned", d, wit(), "block %s was served by the store but the entry is missing from the result", hx.Short(hs))
				}
			}
			deadlineHit := p.Timeout > 0 && (kindsPresent["hang"] || elapsed > time.Duration(p.Timeout)*time.Millisecond/2)
			if !deadlineHit {
				for hs := range reach {
					if !got[hs] {
						run.Violate("C11/reachable-missing", d, wit(), "entry %s is reachable through retrievable, non-excluded entries but was not returned (%d of %d returned)", hx.Short(hs), len(got), len(reach))
						break
					}
				}
				run.Count("exact_closure_checks", 1)
			} else {
				run.Count("deadline_subset_checks", 1)
				if elapsed > time.Duration(p.Timeout)*time.Millisecond+2*time.Second {
					run.Count("obs_returned_late_after_timeout", 1)
				}
			}
			nbadReach := 0
			full := model.FetchReach(src.Set, src.Heads, nil, nil)
			for hs := range bad {
				if _, ok := full[hs]; ok {
					nbadReach++
				}
			}
			if nbadReach > 0 || len(reach) < len(full) {
				var ks []string
				for k := range kindsPresent {
					ks = append(ks, k)
				}
				sort.Strings(ks)
				run.NonTrivial(fmt.Sprintf("%s/%s/%s/c%d/%s/x%v", shape, p.Name, strings.Join(ks, "+"), p.Conc, p.Policy, len(p.Excl) > 0))
			}
			if pn < 2 {
				run.Sample(map[string]any{"plan": p, "log_entries": len(src.Set), "returned": len(got), "model_closure": len(reach)})
			}
		}
	}
	run.Eval(1)
}

// withBadNonce re-encodes a stored link-codec entry block with a links nonce one byte too long or too short.
func withBadNonce(raw []byte, rng *rand.Rand) []byte {
	var g map[string]any
	if err := cbornode.DecodeInto(raw, &g); err != nil {
		return []byte{0xff}
	}
	ns, _ := g["enc_links_nonce"].(string)
	nb, err := base64.StdEncoding.DecodeString(ns)
	if err != nil || len(nb) == 0 {
		return []byte{0xff} // an entry without sealed links (a root): plain garbage instead
	}
	switch rng.Intn(3) {
	case 0:
		nb = nb[:len(nb)-1]
	case 1:
		nb = append(nb, 0)
	default:
		nb = append(nb, make([]byte, 1+rng.Intn(40))...)
	}
	g["enc_links_nonce"] = base64.StdEncoding.EncodeToString(nb)
	n, err := cbornode.WrapObject(g, mh.SHA2_256, -1)
	if err != nil {
		return []byte{0xff}
	}
	return n.RawData()
}

func tailEvents(ev []store.Event, n int) []store.Event {
	if len(ev) > n {
		return ev[len(ev)-n:]
	}
	return ev
}

func clipStr(s string, n int) string {
	if len(s) > n {
		return s[:n] + "\n...[clipped]"
	}
	return s
}

// c11Legacy: a chain of legacy (v0, protobuf-wrapped) blocks loaded with the legacy codec; one block never
// arrives and a fetch timeout is configured: every request must be issued under a context bounded by the timeout
// (decided on the contexts the store was handed), the load must come back, with exactly the entries above the gap.
func c11Legacy(run *evid.Run, i int, j *Journal) {
	rng := rand.New(rand.NewSource(run.Seed*524287 + int64(i)))
	w := hx.NewWorld(run.Seed, 1, "A", "hash", "pb")
	n := 4 + rng.Intn(8)
	var cids []cid.Cid
	st := store.New()
	for k := 0; k < n; k++ {
		next := []any{}
		if k > 0 {
			next = append(next, cids[k-1].String())
		}
		v := map[string]any{"hash": nil, "id": "A", "payload": fmt.Sprintf("v0-c11-%d-%d", i, k), "next": next, "v": 0,
			"clock": map[string]any{"id": v0Key, "time": k}, "key": v0Key, "sig": v0Sig}
		jb, _ := json.Marshal(v)
		raw, c := pbBlock(jb)
		cids = append(cids, c)
		st.PutRaw(c, raw)
	}
	slow := rng.Intn(n - 1) // never the head
	st.SetFault(cids[slow], store.Hang)
	st.SetRecord(true)
	w.Store = st
	timeout := 400
	label := fmt.Sprintf("legacy chain of %d blocks, block #%d never arrives, fetch timeout %d ms, legacy codec", n, slow, timeout)
	j.Log(map[string]any{"case": i, "plan": "legacy-chain-hang+timeout", "detail": label})
	var loaded *ipfslog.IPFSLog
	done := make(chan struct{})
	go func() {
		defer close(done)
		loaded, _ = w.LoadHash(cids[n-1], 0, &hx.LoadOpts{TimeoutMs: timeout, Concurrency: []int{0, 1, 2}[rng.Intn(3)], NoExplicit: true})
	}()
	run.Count("fetches", 1)
	run.Count("plan_legacy-chain-hang+timeout", 1)
	d := det("plan", "legacy-chain-hang+timeout", "codec", "pb", "timeout", true)
	// wait until the slow block has been requested (or the load is back), then look at the contexts
	requested := func() (bool, store.Event) {
		for _, e := range st.Events() {
			if e.Kind == "get-call" && e.Cid == cids[slow].String() {
				return true, e
			}
		}
		return false, store.Event{}
	}
	for k := 0; k < 600; k++ {
		if ok, _ := requested(); ok {
			break
		}
		select {
		case <-done:
			k = 600
		case <-time.After(50 * time.Millisecond):
		}
	}
	wit := func() map[string]any {
		return map[string]any{"scenario": label, "store_events": tailEvents(st.Events(), 40)}
	}
	for _, e := range st.Events() {
		if e.Kind == "get-call" && e.Res != "ctx-done" && (e.DlMs == 0 || e.DlMs > int64(timeout)) {
			run.Violate("C11/request-not-bounded-by-timeout", d, wit(), "with a timeout of %d ms configured, the legacy codec requested block %s under a context with %s: the configured timeout does not bound the load (%s)",
				timeout, hx.Short(e.Cid), map[bool]string{true: "no deadline at all", false: fmt.Sprintf("%d ms left until its deadline", e.DlMs)}[e.DlMs == 0], label)
			return // (the load may never come back: its goroutine is abandoned)
		}
	}
	select {
	case <-done:
	case <-time.After(60 * time.Second):
		run.Inconclusive("legacy load with a timeout did not return within the wall-clock cap although its requests carried deadlines: " + label)
		return
	}
	want := n - 1 - slow
	got := 0
	if loaded != nil {
		got = loaded.Len()
	}
	if got != want {
		run.Violate("C11/reachable-missing", d, wit(), "legacy chain: %d entries loaded, %d lie above the block that never arrives (%s)", got, want, label)
	}
	run.NonTrivial(fmt.Sprintf("legacy/%d/%d", n, slow))
}
