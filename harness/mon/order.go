package mon

import (
	"bytes"
	"fmt"
	mh "github.com/multiformats/go-multihash"
	"math"
	"math/rand"

	"berty.tech/go-ipfs-log/entry"
	"berty.tech/go-ipfs-log/entry/sorting"
	"berty.tech/go-ipfs-log/iface"
	"github.com/ipfs/go-cid"

	"verifharness/evid"
	"verifharness/hx"
)

func sgn(x int) int {
	switch {
	case x < 0:
		return -1
	case x > 0:
		return 1
	}
	return 0
}

type cmpFn struct {
	name string
	f    func(a, b iface.IPFSLogEntry) (int, error)
}

func c19Domain() []*entry.Entry {
	// (2^31 / 10^10 / 2^40 / 2^62: decimal lengths 10, 11, 13 and 19 with leading digits 2, 1, 1 and 4 - numeric order
	// and the order of the decimal texts disagree in several pairs)
	times := []int{0, 1, 2, 7, 1 << 31, 10000000000, 1 << 40, 1 << 53, 1<<53 + 1, 1 << 62, math.MaxInt64}
	key65 := bytes.Repeat([]byte{0x04}, 65)
	key65[64] = 0x7f
	ids := [][]byte{{}, {0x00}, {0x01}, {0x01, 0x00}, {0xff}, key65}
	hashes := []string{"h-a", "h-b", "h-c"}
	var out []*entry.Entry
	for _, t := range times {
		for _, id := range ids {
			for _, h := range hashes {
				out = append(out, &entry.Entry{Hash: foreignCid(fmt.Sprintf("%s", h)), Clock: entry.NewLamportClock(id, t), LogID: "x", Payload: []byte(fmt.Sprintf("%d/%x/%s", t, id, h))})
			}
		}
	}
	return out
}

// sameDigestCids: distinct identifiers that carry the same multihash digest (CID version / codec differ).
func sameDigestCids() []cid.Cid {
	base := foreignCid("h-a")
	return []cid.Cid{
		base,
		cid.NewCidV1(cid.DagProtobuf, base.Hash()),
		cid.NewCidV1(cid.Raw, base.Hash()),
		cid.NewCidV0(base.Hash()),
	}
}

func sameClock(a, b iface.IPFSLogEntry) bool {
	return a.GetClock().GetTime() == b.GetClock().GetTime() && bytes.Equal(a.GetClock().GetID(), b.GetClock().GetID())
}

func desc(e iface.IPFSLogEntry) string {
	return fmt.Sprintf("{t=%d id=%x h=%s}", e.GetClock().GetTime(), clip(e.GetClock().GetID(), 4), hx.Short(e.GetHash().String()))
}

func c19Pair(run *evid.Run, a, b iface.IPFSLogEntry, src string) {
	identical := a == b || (a.GetHash().Equals(b.GetHash()) && sameClock(a, b))
	w := func() map[string]any { return map[string]any{"a": desc(a), "b": desc(b), "source": src} }
	hab, e1 := sorting.SortByEntryHash(a, b)
	hba, e2 := sorting.SortByEntryHash(b, a)
	if e1 != nil || e2 != nil {
		run.Violate("C19/hash-order-error", det(), w(), "hash-tiebreak ordering returned an error: %v %v", e1, e2)
	}
	if identical {
		if hab != 0 {
			run.Violate("C19/hash-order-irreflexive", det(), w(), "hash-tiebreak ordering orders an entry against itself: %d", hab)
		}
	} else {
		if hab == 0 || hba == 0 {
			run.Violate("C19/hash-order-total", det(), w(), "hash-tiebreak ordering leaves distinct entries unordered: f(a,b)=%d f(b,a)=%d", hab, hba)
		}
		if sgn(hab) != -sgn(hba) {
			run.Violate("C19/hash-order-antisymmetric", det(), w(), "hash-tiebreak ordering not antisymmetric: f(a,b)=%d f(b,a)=%d", hab, hba)
		}
	}
	lab, e3 := sorting.LastWriteWins(a, b)
	lba, _ := sorting.LastWriteWins(b, a)
	fab, e4 := sorting.FirstWriteWins(a, b)
	if e3 != nil || e4 != nil {
		run.Violate("C19/order-error", det(), w(), "default ordering returned an error: %v %v", e3, e4)
	}
	if fab != -lab {
		run.Violate("C19/first-write-wins-not-reverse", det(), w(), "first-write-wins=%d, last-write-wins=%d", fab, lab)
	}
	if !sameClock(a, b) {
		if sgn(lab) != sgn(hab) {
			run.Violate("C19/default-differs-from-hash", det(), w(), "default ordering %d differs from hash-tiebreak ordering %d on distinct clocks", lab, hab)
		}
		if sgn(lab) != -sgn(lba) {
			run.Violate("C19/default-antisymmetric", det(), w(), "default ordering not antisymmetric on distinct clocks: %d / %d", lab, lba)
		}
	}
	cab := a.GetClock().Compare(b.GetClock())
	cba := b.GetClock().Compare(a.GetClock())
	if sgn(cab) != -sgn(cba) {
		run.Violate("C19/clock-antisymmetric", det(), w(), "clock comparison not antisymmetric: %d / %d", cab, cba)
	}
	if sameClock(a, b) != (cab == 0) {
		run.Violate("C19/clock-zero", det(), w(), "clock comparison returns %d for clocks that are equal=%v", cab, sameClock(a, b))
	}
	if a.GetClock().GetTime() < b.GetClock().GetTime() {
		if hab >= 0 || lab >= 0 || cab >= 0 || fab <= 0 {
			run.Violate("C19/causality", det(), w(), "an entry with a smaller clock time is not ordered first: hash=%d default=%d clock=%d fww=%d", hab, lab, cab, fab)
		}
	}
	// the wrapper the log installs must not change a non-zero result
	if nz, err := sorting.NoZeroes(sorting.SortByEntryHash)(a, b); !identical && (err != nil || nz != hab) {
		run.Violate("C19/nozeroes", det(), w(), "NoZeroes changed a non-zero result: %d -> %d (%v)", hab, nz, err)
	}
	if cc, err := sorting.Compare(a, b); err != nil || cc != cab {
		run.Violate("C19/compare", det(), w(), "sorting.Compare=%d (%v), clock comparison=%d", cc, err, cab)
	}
}

func c19Triple(run *evid.Run, a, b, c iface.IPFSLogEntry, src string) {
	w := func() map[string]any { return map[string]any{"a": desc(a), "b": desc(b), "c": desc(c), "source": src} }
	ab, _ := sorting.SortByEntryHash(a, b)
	bc, _ := sorting.SortByEntryHash(b, c)
	ac, _ := sorting.SortByEntryHash(a, c)
	if ab < 0 && bc < 0 && ac >= 0 {
		run.Violate("C19/hash-order-transitive", det(), w(), "hash-tiebreak ordering not transitive: a<b, b<c but f(a,c)=%d", ac)
	}
	cab := a.GetClock().Compare(b.GetClock())
	cbc := b.GetClock().Compare(c.GetClock())
	cac := a.GetClock().Compare(c.GetClock())
	if cab < 0 && cbc < 0 && cac >= 0 {
		run.Violate("C19/clock-transitive", det(), w(), "clock comparison not transitive: a<b, b<c but cmp(a,c)=%d", cac)
	}
	if cab <= 0 && cbc <= 0 && cac > 0 {
		run.Violate("C19/clock-transitive", det(), w(), "clock comparison not transitive (non-strict): a<=b, b<=c but cmp(a,c)=%d", cac)
	}
	if !sameClock(a, b) && !sameClock(b, c) && !sameClock(a, c) {
		lab, _ := sorting.LastWriteWins(a, b)
		lbc, _ := sorting.LastWriteWins(b, c)
		lac, _ := sorting.LastWriteWins(a, c)
		if lab < 0 && lbc < 0 && lac >= 0 {
			run.Violate("C19/default-transitive", det(), w(), "default ordering not transitive on distinct clocks")
		}
	}
}

func permutations(n int, f func(p []int)) {
	p := make([]int, n)
	for i := range p {
		p[i] = i
	}
	var rec func(k int)
	rec = func(k int) {
		if k == n {
			f(p)
			return
		}
		for i := k; i < n; i++ {
			p[k], p[i] = p[i], p[k]
			rec(k + 1)
			p[k], p[i] = p[i], p[k]
		}
	}
	rec(0)
}

func c19Sort(run *evid.Run, es []iface.IPFSLogEntry, src string) {
	// "hash+nozeroes" is what a log installs: it REFUSES (returns an error for) a pair that compares equal - which
	// happens when a list holds the same entry twice; the list must come out sorted all the same
	for _, cf := range []cmpFn{{"hash", sorting.SortByEntryHash}, {"revhash", hx.RevHash}, {"hash+nozeroes", sorting.NoZeroes(sorting.SortByEntryHash)}} {
		for _, rev := range []bool{false, true} {
			var ref []string
			permutations(len(es), func(p []int) {
				in := make([]iface.IPFSLogEntry, len(es))
				for i, j := range p {
					in[i] = es[j]
				}
				sorting.Sort(cf.f, in, rev)
				run.Count("sort_calls", 1)
				got := make([]string, len(in))
				cnt := map[iface.IPFSLogEntry]int{}
				for i, e := range in {
					got[i] = desc(e)
					cnt[e]++
				}
				for _, e := range es {
					cnt[e]--
				}
				for _, v := range cnt {
					if v != 0 {
						run.Violate("C19/sort-not-permutation", det("order", cf.name), map[string]any{"source": src, "output": got}, "Sort output is not a permutation of its input")
						return
					}
				}
				for i := 1; i < len(in); i++ {
					chk := cf.f
					if cf.name == "hash+nozeroes" {
						chk = sorting.SortByEntryHash
					}
					c, _ := chk(in[i-1], in[i])
					if (!rev && c > 0) || (rev && c < 0) {
						run.Violate("C19/sort-unsorted", det("order", cf.name, "reverse", rev), map[string]any{"source": src, "output": got}, "Sort output is not sorted")
						return
					}
				}
				if ref == nil {
					ref = got
				} else {
					for i := range ref {
						if ref[i] != got[i] {
							run.Violate("C19/sort-nondeterministic", det("order", cf.name, "reverse", rev), map[string]any{"source": src, "a": ref, "b": got}, "Sort gives different outputs for two permutations of the same input under a total order")
							return
						}
					}
				}
			})
		}
	}
}

// c19Undefined: what the library itself never builds but its callers can hand in - a list with an undefined element
// (nil interface, typed nil) under the comparator that refuses such elements, and ONE entry without a hash among
// hashed ones at equal clocks. Sort stays a permutation; the tie-break stays one strict order.
func c19Undefined(run *evid.Run) {
	mk := func(h string, t int) *entry.Entry {
		return &entry.Entry{Hash: foreignCid(h), Clock: entry.NewLamportClock([]byte{0x01}, t), LogID: "x", Payload: []byte(h)}
	}
	es := []iface.IPFSLogEntry{mk("u-4", 4), nil, mk("u-2", 2), mk("u-3", 3), mk("u-1", 1)}
	for variant := 0; variant < 2; variant++ {
		if variant == 1 {
			es[1] = (*entry.Entry)(nil)
		}
		for _, rev := range []bool{false, true} {
			bad := false
			permutations(len(es), func(p []int) {
				if bad {
					return
				}
				in := make([]iface.IPFSLogEntry, len(es))
				for i, j := range p {
					in[i] = es[j]
				}
				func() {
					defer func() { _ = recover() }() // (a comparator that cannot take such an element is not this clause's business)
					sorting.Sort(sorting.Compare, in, rev)
				}()
				run.Count("sort_calls_with_an_undefined_element", 1)
				cnt := map[iface.IPFSLogEntry]int{}
				nils := 0
				for _, e := range in {
					if e == nil || e == iface.IPFSLogEntry((*entry.Entry)(nil)) {
						nils++
						continue
					}
					cnt[e]++
				}
				ok := nils == 1
				for _, e := range es {
					if e == nil || e == iface.IPFSLogEntry((*entry.Entry)(nil)) {
						continue
					}
					if cnt[e] != 1 {
						ok = false
					}
				}
				if !ok {
					bad = true
					var got []string
					for _, e := range in {
						if e == nil || e == iface.IPFSLogEntry((*entry.Entry)(nil)) {
							got = append(got, "<undefined>")
						} else {
							got = append(got, string(e.GetPayload()))
						}
					}
					run.Violate("C19/sort-not-permutation", det("order", "clock comparator that refuses undefined entries", "reverse", rev), map[string]any{"source": "a list with one undefined element", "output": got}, "Sort output is not a permutation of its input: %v", got)
				}
			})
		}
	}
	run.NonTrivial("sort/undefined-element")
	// one entry without a hash among three hashed ones, equal clocks; signatures in every order relative to the hashes
	sigs := [][]byte{{0x10, 0x01}, {0x40, 0x02}, {0x80, 0x03}, {0xc0, 0x04}}
	permutations(4, func(p []int) {
		var q []*entry.Entry
		for k, h := range []string{"v-a", "v-b", "v-c"} {
			e := mk(h, 5)
			e.Sig = sigs[p[k]]
			q = append(q, e)
		}
		u := &entry.Entry{Hash: cid.Undef, Clock: entry.NewLamportClock([]byte{0x01}, 5), LogID: "x", Payload: []byte("unhashed"), Sig: sigs[p[3]]}
		q = append(q, u)
		var m [4][4]int
		for i := range q {
			for j := range q {
				func() {
					defer func() { _ = recover() }()
					c, _ := sorting.SortByEntryHash(q[i], q[j])
					m[i][j] = sgn(c)
				}()
			}
		}
		run.Count("pairs_with_an_unhashed_entry", 16)
		name := func(i int) string { return string(q[i].GetPayload()) }
		for i := range q {
			for j := range q {
				if i != j && m[i][j] != -m[j][i] {
					run.Violate("C19/hash-order-antisymmetric", det("unhashed_entry", true), map[string]any{"a": name(i), "b": name(j)}, "hash-tiebreak ordering not antisymmetric with an unhashed entry: f(a,b)=%d f(b,a)=%d", m[i][j], m[j][i])
				}
				for k := range q {
					if m[i][j] < 0 && m[j][k] < 0 && m[i][k] >= 0 {
						run.Violate("C19/hash-order-transitive", det("unhashed_entry", true), map[string]any{"a": name(i), "b": name(j), "c": name(k), "signatures": fmt.Sprintf("%x", [][]byte{q[0].Sig, q[1].Sig, q[2].Sig, q[3].Sig})},
							"hash-tiebreak ordering is not transitive when one entry has no hash: %s < %s < %s but f(a,c)=%d", name(i), name(j), name(k), m[i][k])
					}
				}
			}
		}
	})
	run.NonTrivial("pair/unhashed-entry")
}

func CheckC19(run *evid.Run) {
	run.Rule = "axioms evaluated EXHAUSTIVELY over a synthetic domain of 198 entries = clock times {0,1,2,7,2^31,10^10,2^40,2^53,2^53+1,2^62,MaxInt64} x clock ids {empty,00,01,0100,ff,65-byte key} x 3 hashes: all 39204 ordered pairs (irreflexivity, totality, antisymmetry of the hash-tiebreak order; default = hash-tiebreak on distinct clocks; clock antisymmetry; smaller time first; first-write-wins = -last-write-wins; NoZeroes transparency) and all 7762392 ordered triples (transitivity); plus 16 entries whose identifiers are DISTINCT CIDs WITH THE SAME DIGEST (CIDv0 / v1 dag-pb / v1 raw / v1 dag-cbor) at equal clocks, all pairs and triples; plus 27 identifiers = 9 digests (leading bytes 00,01,19,1a,1f,20,7f,80,ff) x {CIDv0, v1 dag-pb, v1 dag-cbor} at equal clocks, all pairs and triples (a criterion that depends on the VERSIONS of the pair compared is not one order); Sort over all permutations of seeded sub-multisets of <=6 entries (720 permutations each, both directions, two total comparators): permutation, sortedness, determinism; plus pairs/triples/sorts drawn from real seeded histories (thorough: 10^6 triples). Non-trivial pair = entries tie on time or on (time,id); distinct = (time relation, id relation, hash relation) class, counted"
	run.Assumptions = []string{"clock times are non-negative as in every entry the library creates; negative times (hostile blocks only) are outside the property's domain"}
	dom := c19Domain()
	n := len(dom)
	parallel(n, func(i int) {
		a := dom[i]
		for j := 0; j < n; j++ {
			b := dom[j]
			c19Pair(run, a, b, "domain")
			tr := sgn(a.Clock.Time - b.Clock.Time)
			if a.Clock.Time == b.Clock.Time {
				run.NonTrivial(fmt.Sprintf("pair/t%d/i%d/h%d", tr, bytes.Compare(a.Clock.ID, b.Clock.ID), sgn(bytes.Compare([]byte(a.Hash.String()), []byte(b.Hash.String())))))
			}
			for k := 0; k < n; k++ {
				c19Triple(run, a, b, dom[k], "domain")
			}
		}
		run.Count("pairs", n)
		run.Count("triples", n*n)
	})
	// distinct identifiers with the same digest, all equal-clock combinations: pairs exhaustively, triples exhaustively
	var sd []*entry.Entry
	for _, t := range []int{3, 1 << 53} {
		for _, id := range [][]byte{{0x01}, {0x02}} {
			for _, c := range sameDigestCids() {
				sd = append(sd, &entry.Entry{Hash: c, Clock: entry.NewLamportClock(id, t), LogID: "x", Payload: []byte("sd")})
			}
		}
	}
	// identifiers of MIXED versions / codecs over several digests, equal clocks: the tie-break is one order on all of them
	var mv []*entry.Entry
	for _, lead := range []byte{0x00, 0x01, 0x19, 0x1a, 0x1f, 0x20, 0x7f, 0x80, 0xff} {
		dg := bytes.Repeat([]byte{lead}, 32)
		dg[31] = 0x5a
		m, err := mh.Encode(dg, mh.SHA2_256)
		if err != nil {
			panic(err)
		}
		for _, c := range []cid.Cid{cid.NewCidV0(m), cid.NewCidV1(cid.DagProtobuf, m), cid.NewCidV1(cid.DagCBOR, m)} {
			mv = append(mv, &entry.Entry{Hash: c, Clock: entry.NewLamportClock([]byte{0x01}, 3), LogID: "x", Payload: []byte("mv")})
		}
	}
	for _, a := range mv {
		for _, b := range mv {
			c19Pair(run, a, b, "identifiers of mixed CID versions")
			for _, c := range mv {
				c19Triple(run, a, b, c, "identifiers of mixed CID versions")
			}
		}
	}
	{
		var es []iface.IPFSLogEntry
		for k := range mv {
			es = append(es, mv[(k*7)%len(mv)])
		}
		c19Sort(run, es[:6], "identifiers of mixed CID versions")
		c19Sort(run, es[6:12], "identifiers of mixed CID versions")
	}
	run.Count("mixed_version_identifier_pairs", len(mv)*len(mv))
	run.NonTrivial("pair/mixed-cid-versions")
	c19Undefined(run)
	// clock ids that are views of ONE roomy buffer (a caller that sliced its keys out of a larger allocation):
	// comparing must neither depend on nor write into the spare capacity
	roomy := make([]byte, 65, 1024)
	for k := range roomy {
		roomy[k] = byte(k + 1)
	}
	var al []*entry.Entry
	for k := 0; k < 4; k++ {
		al = append(al, &entry.Entry{Hash: foreignCid(fmt.Sprintf("alias-%d", k)), Clock: entry.NewLamportClock(roomy[:65], 5), LogID: "x", Payload: []byte("al")})
	}
	for round := 0; round < 2; round++ {
		for _, a := range al {
			for _, b := range al {
				c19Pair(run, a, b, "clock ids aliasing one buffer with spare capacity")
				for _, c := range al {
					c19Triple(run, a, b, c, "clock ids aliasing one buffer with spare capacity")
				}
			}
		}
	}
	{
		var es []iface.IPFSLogEntry
		for _, e := range al {
			es = append(es, e)
		}
		c19Sort(run, es, "clock ids aliasing one buffer with spare capacity")
	}
	run.Count("aliased_clock_id_pairs", 2*len(al)*len(al))
	run.NonTrivial("pair/aliased-clock-ids")
	for _, a := range sd {
		for _, b := range sd {
			c19Pair(run, a, b, "same-digest identifiers")
			for _, c := range sd {
				c19Triple(run, a, b, c, "same-digest identifiers")
			}
		}
	}
	run.Count("same_digest_pairs", len(sd)*len(sd))
	// the orderings are functions of the entries' CURRENT fields: entry objects that were compared before and
	// were then given another hash or clock (SetHash / SetClock, or a Copy() that is re-hashed - the way the
	// library itself creates entries) must compare exactly like freshly built entries with the same fields
	{
		hs := []cid.Cid{foreignCid("h-a"), foreignCid("h-b"), foreignCid("h-c"), foreignCid("h-d")}
		cmps := []cmpFn{{"hash-tiebreak", sorting.SortByEntryHash}, {"last-write-wins", sorting.LastWriteWins}, {"first-write-wins", sorting.FirstWriteWins}}
		fresh := func(h cid.Cid, id []byte, t int) *entry.Entry {
			return &entry.Entry{Hash: h, Clock: entry.NewLamportClock(id, t), LogID: "x", Payload: []byte("reuse")}
		}
		for _, t := range []int{0, 5, 1 << 53} {
			for _, id := range [][]byte{{0x01}, {0x02}} {
				for ha := range hs {
					for hb := range hs {
						for hn := range hs {
							for mode := 0; mode < 3; mode++ {
								a, b := fresh(hs[ha], id, t), fresh(hs[hb], []byte{0x01}, t)
								for _, c := range cmps { // first use: whatever the implementation remembers, it remembers now
									_, _ = c.f(a, b)
									_, _ = c.f(b, a)
								}
								var a2 iface.IPFSLogEntry = a
								how := "SetHash on the compared object"
								switch mode {
								case 1:
									a2 = a.Copy()
									how = "Copy() of the compared object, then SetHash"
								case 2:
									how = "SetHash, then SetClock on the compared object"
								}
								a2.SetHash(hs[hn])
								want := fresh(hs[hn], id, t)
								if mode == 2 {
									a2.SetClock(entry.NewLamportClock([]byte{0x03}, t+1))
									want = fresh(hs[hn], []byte{0x03}, t+1)
								}
								for _, c := range cmps {
									g1, _ := c.f(a2, b)
									w1, _ := c.f(want, b)
									g2, _ := c.f(b, a2)
									w2, _ := c.f(b, want)
									run.Count("comparisons_of_reused_entry_objects", 2)
									if sgn(g1) != sgn(w1) || sgn(g2) != sgn(w2) {
										run.Violate("C19/depends-on-object-history", det("ordering", c.name, "how", how), map[string]any{"a_before": desc(fresh(hs[ha], id, t)), "a_now": desc(want), "b": desc(b), "how": how},
											"%s ordering of an entry object that was compared before and then changed (%s) gives %d/%d, a freshly built entry with the same fields gives %d/%d", c.name, how, g1, g2, w1, w2)
									}
								}
							}
						}
					}
				}
			}
		}
		run.NonTrivial("pair/reused-objects")
	}
	for k := 0; k+4 <= len(sd); k += 4 {
		var es []iface.IPFSLogEntry
		for _, e := range sd[k : k+4] {
			es = append(es, e)
		}
		c19Sort(run, es, "same-digest identifiers")
	}
	run.NonTrivial("pair/same-digest")
	// lists that hold the same entry twice (a second object with the same fields, or the very same object)
	{
		mk := func(t int, h string) *entry.Entry {
			return &entry.Entry{Hash: foreignCid(h), Clock: entry.NewLamportClock([]byte{0x01}, t), LogID: "x", Payload: []byte("dup")}
		}
		e1, e2, e4, e5, e6 := mk(1, "d1"), mk(2, "d2"), mk(4, "d4"), mk(5, "d5"), mk(6, "d6")
		twin := mk(4, "d4")
		for _, es := range [][]iface.IPFSLogEntry{{e6, e5, e4, twin, e2, e1}, {e4, e4, e2, e1, e6}, {twin, e1, e4, e6, twin}, {e2, e2, e2, e1}} {
			c19Sort(run, es, "list holding the same entry twice")
			run.Count("sorts_of_lists_with_duplicates", 1)
		}
		run.NonTrivial("sort/duplicates")
	}
	// entries connected by links whose clocks CONTRADICT the link (a stale or hostile writer signs a child with a
	// clock at or behind its parent's): the orderings are functions of clocks and hashes only
	{
		mk := func(t int, id byte, h string, next ...cid.Cid) *entry.Entry {
			return &entry.Entry{Hash: foreignCid(h), Clock: entry.NewLamportClock([]byte{id}, t), LogID: "x", Payload: []byte("linked"), Next: next}
		}
		a1 := mk(1, 1, "l-a1")
		a2 := mk(2, 1, "l-a2", a1.Hash)
		a3 := mk(3, 1, "l-a3", a2.Hash)
		stale := mk(2, 2, "l-stale", a3.Hash)          // child with a smaller time than its parent
		same := mk(3, 2, "l-same", a3.Hash)            // child with its parent's time
		ahead := mk(1, 0, "l-ahead", a2.Hash, a3.Hash) // merge entry behind both parents
		honest := mk(4, 2, "l-honest", a3.Hash)
		linked := []*entry.Entry{a1, a2, a3, stale, same, ahead, honest}
		for _, a := range linked {
			for _, b := range linked {
				c19Pair(run, a, b, "entries linked against their clocks")
				for _, c := range linked {
					c19Triple(run, a, b, c, "entries linked against their clocks")
				}
			}
		}
		var es []iface.IPFSLogEntry
		for _, e := range linked[:6] {
			es = append(es, e)
		}
		c19Sort(run, es, "entries linked against their clocks")
		run.Count("linked_pairs", len(linked)*len(linked))
		run.NonTrivial("pair/linked-against-clocks")
	}
	run.Eval(n*n + n*n*n)
	run.Exhaustive = true
	run.Extra["exhaustive_scope"] = "pair and triple axioms over the stated 108-entry domain are enumerated completely; Sort permutations are complete per sampled multiset; real-history draws are sampled"
	// Sort: permutations of sub-multisets
	nsets := pick(run.Tier, 200, 2000)
	parallel(nsets, func(i int) {
		rng := rand.New(rand.NewSource(run.Seed*999331 + int64(i)))
		k := 2 + rng.Intn(5)
		var es []iface.IPFSLogEntry
		seen := map[string]bool{}
		for len(es) < k {
			e := dom[rng.Intn(n)]
			key := desc(e)
			if i%2 == 0 && len(es) > 0 {
				// bias towards ties: same time as the first
				e = dom[(rng.Intn(n)%18)+18*(indexOfTime(dom, es[0].GetClock().GetTime()))%len(dom)]
				key = desc(e)
			}
			if seen[key] {
				continue
			}
			seen[key] = true
			es = append(es, e)
		}
		c19Sort(run, es, fmt.Sprintf("domain multiset #%d", i))
		run.Eval(1)
		run.NonTrivial(fmt.Sprintf("sort/k%d/%d", k, i%2))
		if i == 0 {
			var ds []string
			for _, e := range es {
				ds = append(ds, desc(e))
			}
			run.Sample(map[string]any{"sort_input": ds})
		}
	})
	// real histories
	nh := pick(run.Tier, 300, 4000)
	parallel(nh, func(i int) {
		h := hx.Gen(run.Seed, i, hx.GenOpts{MaxSteps: 40, Orders: []string{"hash"}})
		x := hx.NewExec(h)
		var es []iface.IPFSLogEntry
		for k, s := range h.Steps {
			if res := x.Do(k); s.Op == "append" && res.Err == nil {
				es = append(es, res.Entry)
			}
		}
		if len(es) < 3 {
			return
		}
		rng := rand.New(rand.NewSource(run.Seed + int64(i)))
		for _, a := range es {
			for _, b := range es {
				c19Pair(run, a, b, fmt.Sprintf("history seed=%d idx=%d", h.Seed, h.Idx))
			}
		}
		run.Count("real_pairs", len(es)*len(es))
		for t := 0; t < 400; t++ {
			c19Triple(run, es[rng.Intn(len(es))], es[rng.Intn(len(es))], es[rng.Intn(len(es))], fmt.Sprintf("history seed=%d idx=%d", h.Seed, h.Idx))
		}
		run.Count("real_triples", 400)
		k := minInt(len(es), 5)
		sub := make([]iface.IPFSLogEntry, 0, k)
		for _, j := range rng.Perm(len(es))[:k] {
			sub = append(sub, es[j])
		}
		c19Sort(run, sub, fmt.Sprintf("history seed=%d idx=%d", h.Seed, h.Idx))
		run.Eval(1)
		if i == 0 {
			run.Sample(map[string]any{"pair": []string{desc(es[0]), desc(es[1])}, "source": "history"})
		}
	})
	run.Sample(map[string]any{"triple": []string{desc(dom[0]), desc(dom[19]), desc(dom[107])}, "source": "domain"})
}

func indexOfTime(dom []*entry.Entry, t int) int {
	for i, e := range dom {
		if e.Clock.Time == t {
			return i / 18
		}
	}
	return 0
}
