package mon

import (
	"bytes"
	"context"
	"fmt"
	"math/rand"
	"sort"
	"strings"
	"sync"
	"sync/atomic"
	"time"

	ipfslog "berty.tech/go-ipfs-log"
	"berty.tech/go-ipfs-log/accesscontroller"
	"berty.tech/go-ipfs-log/entry"
	idp "berty.tech/go-ipfs-log/identityprovider"
	"berty.tech/go-ipfs-log/iface"
	"github.com/anishathalye/porcupine"
	"github.com/ipfs/go-cid"

	"verifharness/evid"
	"verifharness/hx"
	"verifharness/model"
)

// ---------------------------------------------------------------- client-boundary history

type opRec struct {
	G      int    `json:"g"`
	Kind   string `json:"kind"`
	Arg    string `json:"arg,omitempty"`
	Call   int64  `json:"call"`
	Ret    int64  `json:"ret"`
	Err    string `json:"err,omitempty"`
	Entry  string `json:"entry,omitempty"` // append: hash of the returned entry
	e      *model.E
	read   any
	failed bool
}

var c13Kinds = []string{"append", "join", "joinbad", "values", "heads", "rawheads", "getentries", "get", "has", "len", "snapshot", "jsonlog", "tostring", "iterator", "iterstream", "iterbounds", "mergefrom", "tomultihash", "setidentity"}

var c13Points = map[string][]string{
	"append":      {"append.enter", "append.locked", "append.created", "append.indexed", "append.exit"},
	"join":        {"join.enter", "join.locked", "join.diffed", "join.validated", "join.indexed", "join.headsmerged", "join.applied", "join.exit"},
	"values":      {"values.locked"},
	"snapshot":    {"snapshot.locked"},
	"jsonlog":     {"jsonlog.unlocked"},
	"heads":       {"heads.unlocked"},
	"rawheads":    {"rawheads.enter", "rawheads.held"},
	"getentries":  {"getentries.enter"},
	"iterator":    {"iterator.locked", "iterator.unlocked"},
	"iterbounds":  {"iterator.locked", "iterator.unlocked"},
	"setidentity": {"setidentity.locked"},
	"tomultihash": {"tomultihash.enter", "tomultihash.checked"},
}

// scene is one shared log plus frozen sources.
type scene struct {
	w        *hx.World
	L        *ipfslog.IPFSLog
	srcs     []*ipfslog.IPFSLog
	srcSets  []model.Set
	bad      *ipfslog.IPFSLog
	universe model.Set // every entry that can ever be in L
	clock    int64
	mu       sync.Mutex
	recs     []*opRec
	nApp     int64
	seen     map[int]map[string]bool // per goroutine: hashes it has seen in L (append-only check)
	lastLen  map[int]int
	initSet  model.Set
	held     map[int]heldRead // per goroutine: the last GetEntries() result it was handed, and what it contained then
}

// inspectACL is an access controller that looks at the log's entries through the context it is given
// (e.g. a quota or duplicate check); it allows everything.
type inspectACL struct{ looked int64 }

func (a *inspectACL) CanAppend(e accesscontroller.LogEntry, _ idp.Interface, c accesscontroller.CanAppendAdditionalContext) error {
	if c != nil {
		atomic.AddInt64(&a.looked, int64(len(c.GetLogEntries())))
	}
	return nil
}

// aheadSource adds (and returns the index of) a frozen source that is AHEAD of L: it holds everything L holds now
// plus entries on top, so its head names L's current heads as predecessors.
func (s *scene) aheadSource(tag string, n int) int {
	src := s.w.NewLog(1)
	_, _ = src.Join(s.L, -1)
	for k := 0; k < n; k++ {
		_, _ = src.Append(s.w.Ctx, []byte(fmt.Sprintf("ahead-%s-%d", tag, k)), nil)
	}
	set := hx.Observe(src).Set
	s.mu.Lock()
	s.srcs = append(s.srcs, src)
	s.srcSets = append(s.srcSets, set)
	for h, e := range set {
		s.universe[h] = e
	}
	s.mu.Unlock()
	return len(s.srcs) - 1
}

func newScene(seed int64, idx int, nsrc int, rng *rand.Rand) *scene {
	codec := "cbor"
	if idx%3 == 2 {
		codec = "link" // merges then run one pre-sign (seal) per candidate on concurrent goroutines
	}
	w := hx.NewWorld(seed, 4, fmt.Sprintf("c13-%d-%d", seed, idx), "hash", codec)
	w.Store.PinDelay = 2 * time.Millisecond
	s := &scene{w: w, universe: model.Set{}, seen: map[int]map[string]bool{}, lastLen: map[int]int{}}
	if idx%4 == 1 {
		lo := w.LogOpts(w.LogID)
		lo.AccessController = &inspectACL{}
		s.L, _ = ipfslog.NewLog(w.Store.API(), w.Idents[0], lo)
	} else {
		s.L = w.NewLog(0)
	}
	// initial content of L
	for k := rng.Intn(4); k > 0; k-- {
		e, _ := s.L.Append(w.Ctx, []byte(fmt.Sprintf("init-%d", k)), nil)
		s.universe[e.GetHash().String()] = hx.ToModel(e)
	}
	for k := 0; k < nsrc; k++ {
		src := w.NewLog(1 + k%3)
		if rng.Intn(2) == 0 {
			_, _ = src.Join(s.L, -1) // overlaps with L's initial state
		}
		for n := 1 + rng.Intn(4); n > 0; n-- {
			_, _ = src.Append(w.Ctx, []byte(fmt.Sprintf("src%d-%d", k, n)), nil)
		}
		if k > 0 && rng.Intn(2) == 0 {
			_, _ = src.Join(s.srcs[k-1], -1)
			_, _ = src.Append(w.Ctx, []byte(fmt.Sprintf("src%d-m", k)), nil)
		}
		s.srcs = append(s.srcs, src)
		set := hx.Observe(src).Set
		s.srcSets = append(s.srcSets, set)
		for h, e := range set {
			s.universe[h] = e
		}
	}
	// a source with several invalid entries: drives the shared error state of the verification workers
	good := w.NewLog(2)
	var es []iface.IPFSLogEntry
	nbad := []int{6, 6, 16, 17, 33, 40}[rng.Intn(6)] // also more refused entries in ONE merge than the log's concurrency limit (16)
	for n := 0; n < nbad; n++ {
		e, _ := good.Append(w.Ctx, []byte(fmt.Sprintf("bad-%d", n)), nil)
		es = append(es, e)
	}
	var bes []iface.IPFSLogEntry
	for n, e := range es {
		if n%2 == 0 {
			c, _ := corrupt("sigflip", e, es[0], rng)
			bes = append(bes, c)
		} else {
			c, _ := corrupt("nokey", e, es[0], rng)
			bes = append(bes, c)
		}
	}
	lo := w.LogOpts(w.LogID)
	lo.Entries = entry.NewOrderedMapFromEntries(bes)
	lo.Heads = []iface.IPFSLogEntry{bes[len(bes)-1]}
	s.bad, _ = ipfslog.NewLog(w.Store.API(), w.Idents[2], lo)
	s.initSet = hx.Observe(s.L).Set
	return s
}

type heldRead struct {
	m    iface.IPFSLogOrderedEntries
	keys []string
}

func (s *scene) tick() int64 { return atomic.AddInt64(&s.clock, 1) }

// ---------------------------------------------------------------- read monitors

// checkClosedSorted: a value sequence read from L must be duplicate-free, closed under predecessors
// known to the universe, and strictly ascending in the log's (hash-tiebreak) order.
func (s *scene) checkSeq(run *evid.Run, view string, seq []string, newestFirst bool, wit func() map[string]any) model.Set {
	set := model.Set{}
	pos := map[string]int{}
	u := s.fullUniverse()
	for i, h := range seq {
		if _, dup := pos[h]; dup {
			run.Violate("C13/read-duplicate", det("view", view), wit(), "%s returned %s twice during concurrent use", view, hx.Short(h))
			return set
		}
		pos[h] = i
		e, ok := u[h]
		if !ok {
			// entries appended concurrently are added to the universe after their append returned;
			// resolve lazily from L
			if c, err := cid.Decode(h); err == nil {
				if le, ok2 := s.L.Get(c); ok2 {
					e = hx.ToModel(le)
				}
			}
			if e == nil {
				run.Violate("C13/read-unknown-entry", det("view", view), wit(), "%s returned an entry %s nobody created", view, hx.Short(h))
				return set
			}
		}
		set[h] = e
	}
	for h, e := range set {
		for _, n := range e.Next {
			pn, in := pos[n]
			if !in {
				run.Violate("C13/read-not-closed", det("view", view), wit(), "%s contains %s but not its predecessor %s (incomplete state observed)", view, hx.Short(h), hx.Short(n))
				return set
			}
			if (!newestFirst && pn > pos[h]) || (newestFirst && pn < pos[h]) {
				run.Violate("C13/read-causal-order", det("view", view), wit(), "%s orders %s before its predecessor %s", view, hx.Short(h), hx.Short(n))
				return set
			}
		}
	}
	for i := 1; i < len(seq); i++ {
		c := model.CmpHash(set[seq[i-1]], set[seq[i]])
		if (!newestFirst && c >= 0) || (newestFirst && c <= 0) {
			run.Violate("C13/read-unsorted", det("view", view), wit(), "%s is not sorted at index %d", view, i)
			break
		}
	}
	return set
}

func (s *scene) checkAntichain(run *evid.Run, view string, heads []string, wit func() map[string]any) {
	if hasDup(heads) {
		run.Violate("C13/read-duplicate", det("view", view), wit(), "%s returned a head twice", view)
	}
	u := s.fullUniverse()
	for _, a := range heads {
		pa := model.Past(u, []string{a})
		for _, b := range heads {
			if a != b {
				if _, in := pa[b]; in {
					run.Violate("C13/heads-not-antichain", det("view", view), wit(), "%s returned head %s together with its ancestor %s", view, hx.Short(a), hx.Short(b))
					return
				}
			}
		}
	}
}

func (s *scene) fullUniverse() model.Set {
	s.mu.Lock()
	defer s.mu.Unlock()
	return s.universe.Copy()
}

// monotone: what a goroutine has seen in L must still be there (append-only), checked on set-valued reads.
func (s *scene) monotone(run *evid.Run, g int, view string, set model.Set, wit func() map[string]any) {
	s.mu.Lock()
	defer s.mu.Unlock()
	seen := s.seen[g]
	if seen == nil {
		seen = map[string]bool{}
		s.seen[g] = seen
	}
	for h := range seen {
		if _, ok := set[h]; !ok {
			run.Violate("C13/read-not-monotone", det("view", view), wit(), "goroutine %d saw %s earlier, %s no longer contains it", g, hx.Short(h), view)
			break
		}
	}
	for h := range set {
		seen[h] = true
	}
}

// ---------------------------------------------------------------- operations

func (s *scene) do(run *evid.Run, g int, kind string, rng *rand.Rand, exact bool) *opRec {
	r := &opRec{G: g, Kind: kind}
	L := s.L
	wit := func() map[string]any { return map[string]any{"goroutine": g, "op": kind} }
	// what a read handed out is a value: it must not change under the reader's hands when the log moves on
	s.mu.Lock()
	hr, hasHeld := s.held[g]
	s.mu.Unlock()
	if hasHeld {
		now := hr.m.Keys()
		if len(now) != len(hr.keys) {
			run.Violate("C13/read-result-mutated", det("view", "GetEntries()"), wit(), "a GetEntries() result handed to goroutine %d had %d entries when it was returned and has %d now: it aliases the log's live index", g, len(hr.keys), len(now))
		}
	}
	r.Call = s.tick()
	switch kind {
	case "append":
		n := atomic.AddInt64(&s.nApp, 1)
		r.Arg = fmt.Sprintf("p-%d-%d", g, n)
		// (a quarter of the appends are PINNED; the harness pin service takes 2 ms per request)
		e, err := L.Append(s.w.Ctx, []byte(r.Arg), &iface.AppendOptions{PointerCount: []int{1, 1, 4, 16}[rng.Intn(4)], Pin: rng.Intn(4) == 0})
		r.Ret = s.tick()
		if err != nil {
			r.Err, r.failed = err.Error(), true
		} else {
			r.e = hx.ToModel(e)
			r.Entry = r.e.Hash
			s.mu.Lock()
			s.universe[r.e.Hash] = r.e
			s.mu.Unlock()
		}
	case "join":
		k := rng.Intn(len(s.srcs))
		r.Arg = fmt.Sprint(k)
		_, err := L.Join(s.srcs[k], -1)
		r.Ret = s.tick()
		if err != nil {
			r.Err, r.failed = err.Error(), true
		}
	case "joinbad":
		_, err := L.Join(s.bad, -1)
		r.Ret = s.tick()
		if err != nil {
			r.Err, r.failed = err.Error(), true
		}
	case "setidentity":
		w := rng.Intn(3)
		r.Arg = fmt.Sprint(w)
		L.SetIdentity(s.w.Idents[w])
		r.Ret = s.tick()
	case "values":
		v := hx.Hashes(L.Values().Slice())
		r.Ret = s.tick()
		set := s.checkSeq(run, "Values()", v, false, wit)
		s.monotone(run, g, "Values()", set, wit)
	case "heads":
		v := hx.Hashes(L.Heads().Slice())
		r.Ret = s.tick()
		s.checkAntichain(run, "Heads()", v, wit)
	case "rawheads":
		hm := L.RawHeads()
		// the caller holds the result for a while before looking at it (a harness-side hook point: the sweep parks
		// the reader HERE while a writer runs): what was handed out is a snapshot and must still be consistent
		hookFn(L, "rawheads.held")
		v := hx.Hashes(hm.Slice())
		r.Ret = s.tick()
		s.checkAntichain(run, "RawHeads()", v, wit)
	case "getentries":
		ge := L.GetEntries()
		s.mu.Lock()
		if s.held == nil {
			s.held = map[int]heldRead{}
		}
		s.held[g] = heldRead{ge, append([]string(nil), ge.Keys()...)}
		s.mu.Unlock()
		v := hx.Hashes(ge.Slice())
		r.Ret = s.tick()
		u := s.fullUniverse()
		set := model.Set{}
		for _, h := range v {
			e := u[h]
			if e == nil {
				if c, err := cid.Decode(h); err == nil {
					if le, ok := L.Get(c); ok {
						e = hx.ToModel(le)
					}
				}
			}
			if e == nil {
				run.Violate("C13/read-unknown-entry", det("view", "GetEntries()"), wit(), "GetEntries() returned an entry nobody created")
				continue
			}
			set[h] = e
		}
		for h, e := range set {
			for _, n := range e.Next {
				if _, in := set[n]; !in {
					run.Violate("C13/read-not-closed", det("view", "GetEntries()"), wit(), "GetEntries() contains %s but not its predecessor %s", hx.Short(h), hx.Short(n))
				}
			}
		}
		s.monotone(run, g, "GetEntries()", set, wit)
	case "get", "has":
		s.mu.Lock()
		var known []string
		for h := range s.seen[g] {
			known = append(known, h)
		}
		s.mu.Unlock()
		if len(known) == 0 {
			r.Ret = s.tick()
			break
		}
		sort.Strings(known)
		h := known[rng.Intn(len(known))]
		c, _ := cid.Decode(h)
		var ok bool
		if kind == "get" {
			var e iface.IPFSLogEntry
			e, ok = L.Get(c)
			if ok && e.GetHash().String() != h {
				run.Violate("C13/get-wrong-entry", det(), wit(), "Get(%s) returned another entry", hx.Short(h))
			}
			// what a read hands out is complete at any moment: it carries its key and its signature, and verifies
			if ok && (len(e.GetKey()) == 0 || len(e.GetSig()) == 0) {
				run.Violate("C13/entry-incomplete", det(), wit(), "Get(%s) returned an entry without key or signature (key %d bytes, signature %d bytes) while other goroutines used the log", hx.Short(h), len(e.GetKey()), len(e.GetSig()))
			}
		} else {
			ok = L.Has(c)
		}
		r.Ret = s.tick()
		if !ok {
			run.Violate("C13/read-not-monotone", det("view", kind), wit(), "goroutine %d saw %s earlier, %s(hash) no longer finds it", g, hx.Short(h), kind)
		}
	case "len":
		n := L.Len()
		r.Ret = s.tick()
		s.mu.Lock()
		if n < s.lastLen[g] {
			run.Violate("C13/len-decreased", det(), wit(), "Len() went from %d to %d for goroutine %d", s.lastLen[g], n, g)
		}
		s.lastLen[g] = n
		s.mu.Unlock()
	case "snapshot":
		sn := L.ToSnapshot()
		r.Ret = s.tick()
		v := hx.Hashes(sn.Values)
		set := s.checkSeq(run, "ToSnapshot().Values", v, false, wit)
		if len(set) == len(v) {
			// heads and values are read under one lock: they must agree exactly
			complete := true
			for _, e := range set {
				if e == nil {
					complete = false
				}
			}
			if complete && !model.EqualAsSets(hx.Cids(sn.Heads), model.Heads(set)) {
				run.Violate("C13/snapshot-heads", det(), wit(), "ToSnapshot(): heads %v are not the unreferenced entries %v of its values", hx.SortedShorts(hx.Cids(sn.Heads)), hx.Shorts(model.Heads(set)))
			}
		}
		s.monotone(run, g, "ToSnapshot().Values", set, wit)
	case "jsonlog":
		j := L.ToJSONLog()
		r.Ret = s.tick()
		s.checkAntichain(run, "ToJSONLog().Heads", hx.Cids(j.Heads), wit)
	case "tostring":
		_ = L.ToString(nil)
		r.Ret = s.tick()
	case "iterator":
		ch := make(chan iface.IPFSLogEntry, 4096)
		err := L.Iterator(&iface.IteratorOptions{}, ch)
		r.Ret = s.tick()
		if err != nil {
			run.Violate("C13/iterator-error", det(), wit(), "Iterator failed during concurrent use: %v", err)
			break
		}
		var v []string
		closed := false
		for !closed {
			select {
			case e, ok := <-ch:
				if !ok {
					closed = true
				} else {
					v = append(v, e.GetHash().String())
				}
			default:
				run.Violate("C13/iterator-not-closed", det(), wit(), "Iterator returned without closing its channel")
				closed = true
			}
		}
		set := s.checkSeq(run, "Iterator", v, true, wit)
		s.monotone(run, g, "Iterator", set, wit)
	case "iterbounds":
		// iterations with bounds taken from what the log currently holds (oldest / middle / newest entry), and one
		// with a bound nobody holds: whatever they return, they must end, close the channel on success and
		// leave the log usable
		vs := L.Values().Slice()
		var opts []*iface.IteratorOptions
		if len(vs) > 0 {
			old, mid, nw := vs[0].GetHash(), vs[len(vs)/2].GetHash(), vs[len(vs)-1].GetHash()
			opts = append(opts, &iface.IteratorOptions{LTE: []cid.Cid{mid}}, &iface.IteratorOptions{LT: []cid.Cid{old}},
				&iface.IteratorOptions{GTE: old, LTE: []cid.Cid{nw}}, &iface.IteratorOptions{GT: mid, LT: []cid.Cid{nw}})
		}
		opts = append(opts, &iface.IteratorOptions{LT: []cid.Cid{foreignCid("nobody-holds-this")}})
		o := opts[rng.Intn(len(opts))]
		ch := make(chan iface.IPFSLogEntry, 8192)
		err := L.Iterator(o, ch)
		r.Ret = s.tick()
		if err == nil {
			seen := map[string]bool{}
			closed := false
			for !closed {
				select {
				case e, ok := <-ch:
					if !ok {
						closed = true
					} else if e != nil {
						if seen[e.GetHash().String()] {
							run.Violate("C13/iterator-duplicate", det(), wit(), "bounded Iterator emitted %s twice during concurrent use", hx.Short(e.GetHash().String()))
						}
						seen[e.GetHash().String()] = true
					}
				default:
					run.Violate("C13/iterator-not-closed", det(), wit(), "bounded Iterator returned without closing its channel")
					closed = true
				}
			}
		}
	case "mergefrom":
		// ANOTHER log merges from the shared log (it reads the shared log's heads and entries and validates the entry
		// objects the shared log holds): this must not disturb the shared log or its readers, and must succeed
		other := s.w.NewLog(3)
		_, err := other.Join(L, -1)
		r.Ret = s.tick()
		if err != nil {
			run.Violate("C13/merge-from-shared-log-failed", det(), wit(), "a merge FROM the shared log into a fresh log failed during concurrent use: %v", err)
		}
	case "iterstream":
		// entries are handed over one by one through an unbuffered channel; after the first one the
		// consumer (this goroutine) writes to the same log and then keeps receiving
		out := make(chan iface.IPFSLogEntry)
		errc := make(chan error, 1)
		go func() { errc <- L.Iterator(&iface.IteratorOptions{}, out) }()
		var v []string
		first := true
		for e := range out {
			v = append(v, e.GetHash().String())
			if first {
				first = false
				s.do(run, g, "append", rng, false) // recorded as an ordinary append of this goroutine
			}
		}
		<-errc
		r.Ret = s.tick()
		set := s.checkSeq(run, "Iterator (streamed)", v, true, wit)
		s.monotone(run, g, "Iterator (streamed)", set, wit)
	case "tomultihash":
		c, err := L.ToMultihash(s.w.Ctx)
		r.Ret = s.tick()
		if err != nil {
			if L.Len() > 0 && !strings.Contains(err.Error(), "empty") {
				run.Violate("C13/publish-error", det(), wit(), "ToMultihash failed: %v", err)
			}
			break
		}
		node, err := s.w.IOv().Read(s.w.Ctx, s.w.Store.API(), c)
		if err == nil {
			if jl, err := s.w.IOv().DecodeRawJSONLog(node); err == nil {
				if len(jl.Heads) == 0 {
					run.Violate("C13/published-empty-manifest", det(), wit(), "a manifest with no heads was published")
				}
				s.checkAntichain(run, "published manifest", hx.Cids(jl.Heads), wit)
			}
		}
	}
	if r.Ret == 0 {
		r.Ret = s.tick()
	}
	s.mu.Lock()
	s.recs = append(s.recs, r)
	s.mu.Unlock()
	return r
}

// ---------------------------------------------------------------- offline checks on a finished history

type linState struct {
	ents   string
	writer int
}

type linIn struct {
	kind string
	arg  string
}

func (s *scene) offline(run *evid.Run, label string, wit func() map[string]any) {
	final := hx.Observe(s.L)
	recs := append([]*opRec(nil), s.recs...)
	sort.Slice(recs, func(i, j int) bool { return recs[i].Call < recs[j].Call })
	c02Final(run, final, label, wit)
	// everything has returned: a publication made NOW, alone, names the heads the log has now - whatever publications
	// overlapped with writers during the run
	if len(final.Heads) > 0 {
		if c, err := s.L.ToMultihash(s.w.Ctx); err == nil {
			if node, err := s.w.IOv().Read(s.w.Ctx, s.w.Store.API(), c); err == nil {
				if jl, err := s.w.IOv().DecodeRawJSONLog(node); err == nil {
					run.Count("publications_after_the_run", 1)
					if !model.EqualAsSets(hx.Cids(jl.Heads), final.Heads) {
						run.Violate("C13/stale-publication", det(), wit(), "a manifest published after every operation had returned names the heads %v, the log's heads are %v", hx.SortedShorts(hx.Cids(jl.Heads)), hx.SortedShorts(final.Heads))
					}
				}
			}
		}
	}
	var apps []*opRec
	for _, r := range recs {
		if r.Kind == "append" {
			if r.failed {
				run.Violate("C13/append-failed", det(), wit(), "append failed during concurrent use: %s", r.Err)
				continue
			}
			apps = append(apps, r)
		}
		if r.Kind == "join" && r.failed {
			run.Violate("C13/join-failed", det(), wit(), "merge of a valid frozen log failed during concurrent use: %s", r.Err)
		}
		if r.Kind == "joinbad" && !r.failed {
			run.Violate("C13/bad-merge-accepted", det(), wit(), "merge of a log with invalid entries returned no error during concurrent use")
		}
	}
	// (iii) exactly once
	cnt := map[string]int{}
	for _, v := range final.Values {
		cnt[v]++
	}
	for _, a := range apps {
		if cnt[a.e.Hash] != 1 {
			run.Violate("C13/append-not-exactly-once", det("count", cnt[a.e.Hash]), wit(), "successful append %s (%s) appears %d times in the final values", a.Arg, hx.Short(a.e.Hash), cnt[a.e.Hash])
		}
	}
	hashSeen := map[string]bool{}
	for _, a := range apps {
		if hashSeen[a.e.Hash] {
			run.Violate("C13/append-not-exactly-once", det("count", 2), wit(), "two appends returned the same entry %s", hx.Short(a.e.Hash))
		}
		hashSeen[a.e.Hash] = true
	}
	// (iv) real-time order implies causal order; all appends form one chain
	past := map[string]model.Set{}
	for _, a := range apps {
		past[a.e.Hash] = model.Past(final.Set, []string{a.e.Hash})
	}
	for _, a := range apps {
		for _, b := range apps {
			if a == b {
				continue
			}
			_, aInB := past[b.e.Hash][a.e.Hash]
			_, bInA := past[a.e.Hash][b.e.Hash]
			if a.Ret < b.Call && !aInB {
				run.Violate("C13/append-order", det(), wit(), "append %s returned before append %s was called but is not in its causal past", a.Arg, b.Arg)
			}
			if !aInB && !bInA {
				run.Violate("C13/appends-not-a-chain", det(), wit(), "appends %s and %s on the same log are causally unrelated (lost serialisation)", a.Arg, b.Arg)
			}
		}
	}
	// (v) linearizability of the mutator history against the sequential model
	u := s.fullUniverse()
	initial := s.initSet.Copy()
	added := model.Set{}
	for _, r := range recs {
		if r.Kind == "join" && !r.failed {
			k := 0
			fmt.Sscan(r.Arg, &k)
			for h, e := range s.srcSets[k] {
				added[h] = e
			}
		}
	}
	var ops []porcupine.Operation
	for _, r := range recs {
		switch r.Kind {
		case "append", "join", "joinbad", "setidentity":
			if r.Kind == "append" && r.failed {
				continue
			}
			ops = append(ops, porcupine.Operation{ClientId: r.G, Input: linIn{r.Kind, r.Arg}, Output: r, Call: r.Call, Return: r.Ret})
		}
	}
	enc := func(set model.Set) string { return strings.Join(set.Keys(), ",") }
	dec := func(s string) []string {
		if s == "" {
			return nil
		}
		return strings.Split(s, ",")
	}
	writerKey := func(w int) []byte { return s.w.Idents[w].PublicKey }
	m := porcupine.Model{
		Init: func() interface{} { return linState{ents: enc(initial), writer: 0} },
		Step: func(st, in, out interface{}) (bool, interface{}) {
			state := st.(linState)
			i := in.(linIn)
			r := out.(*opRec)
			cur := model.Set{}
			for _, h := range dec(state.ents) {
				cur[h] = u[h]
			}
			switch i.kind {
			case "setidentity":
				w := 0
				fmt.Sscan(i.arg, &w)
				return true, linState{ents: state.ents, writer: w}
			case "joinbad":
				return r.failed, state
			case "join":
				if r.failed {
					return false, state
				}
				k := 0
				fmt.Sscan(i.arg, &k)
				return true, linState{ents: enc(model.Union(cur, s.srcSets[k])), writer: state.writer}
			case "append":
				e := r.e
				if !model.EqualAsSets(e.Next, model.Heads(cur)) {
					return false, state
				}
				if !bytes.Equal(e.ClockID, writerKey(state.writer)) {
					return false, state
				}
				for _, o := range cur {
					if o.Time >= e.Time {
						return false, state
					}
				}
				cur[e.Hash] = e
				return true, linState{ents: enc(cur), writer: state.writer}
			}
			return false, state
		},
		Equal: func(a, b interface{}) bool { return a.(linState) == b.(linState) },
	}
	if len(ops) > 0 {
		res, _ := porcupine.CheckOperationsVerbose(m, ops, 20*time.Second)
		run.Count("porcupine_histories", 1)
		run.Count("porcupine_mutator_ops", len(ops))
		switch res {
		case porcupine.Illegal:
			w := wit()
			w["mutator_history"] = recs
			run.Violate("C13/not-linearizable", det(), w, "the history of appends / merges / identity changes (%d ops) is not linearizable w.r.t. the sequential log model", len(ops))
		case porcupine.Unknown:
			run.Inconclusive("porcupine timed out on " + label)
		}
	}
	// the final state must be exactly initial + all appends + all merged sources
	want := initial.Copy()
	for _, a := range apps {
		want[a.e.Hash] = a.e
	}

	for h, e := range added {
		want[h] = e
	}
	if !model.SameKeys(final.Set, want) {
		run.Violate("C13/final-state", det(), wit(), "final log holds %d entries, initial + successful appends + merged sources = %d", len(final.Set), len(want))
	}
}

func c02Final(run *evid.Run, o *hx.Obs, label string, wit func() map[string]any) {
	if !model.EqualAsSets(o.Heads, model.Heads(o.Set)) {
		run.Violate("C13/final-heads", det(), wit(), "after the run heads %v != unreferenced entries %v", hx.SortedShorts(o.Heads), hx.Shorts(model.Heads(o.Set)))
	}
	if want := model.Linearise(o.Set, model.CmpHash); !model.EqualSeq(o.Values, want) {
		run.Violate("C13/final-values", det(), wit(), "after the run values differ from the model linearisation")
	}
}

var _ = context.Background
