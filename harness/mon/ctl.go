package mon

import (
	"regexp"
	"runtime"
	"strings"
	"sync"
	"sync/atomic"
	"time"

	ipfslog "berty.tech/go-ipfs-log"
)

// ---------------------------------------------------------------- hook controller

// plan decides what happens at a hook point. Exactly one plan is active per process.
type plan struct {
	seed uint64
	ctr  uint64
	// noise: each hook call yields / sleeps with small seeded values
	noise bool
	// park: the first goroutine that reaches (log, point) parks until released
	parkLog   *ipfslog.IPFSLog
	parkPoint string
	claimed   int32
	parked    chan struct{}
	release   chan struct{}
	// trace of (log tag, point) events
	mu     sync.Mutex
	trace  []string
	tags   map[*ipfslog.IPFSLog]string
	points map[string]int
}

var activePlan atomic.Pointer[plan]

func splitmix(x uint64) uint64 {
	x += 0x9e3779b97f4a7c15
	x = (x ^ (x >> 30)) * 0xbf58476d1ce4e5b9
	x = (x ^ (x >> 27)) * 0x94d049bb133111eb
	return x ^ (x >> 31)
}

func hookFn(l *ipfslog.IPFSLog, point string) {
	p := activePlan.Load()
	if p == nil {
		return
	}
	p.mu.Lock()
	if tag, ok := p.tags[l]; ok {
		if len(p.trace) < 4000 {
			p.trace = append(p.trace, tag+":"+point)
		}
		p.points[point]++
	}
	p.mu.Unlock()
	if p.parkLog == l && p.parkPoint == point && atomic.CompareAndSwapInt32(&p.claimed, 0, 1) {
		close(p.parked)
		<-p.release
		return
	}
	if p.noise {
		r := splitmix(p.seed + atomic.AddUint64(&p.ctr, 1))
		switch r % 8 {
		case 0, 1, 2:
			for n := int(r>>8) % 6; n >= 0; n-- {
				runtime.Gosched()
			}
		case 3:
			time.Sleep(time.Duration((r>>8)%200) * time.Microsecond)
		}
	}
}

func newPlan(seed uint64, noise bool, tags map[*ipfslog.IPFSLog]string) *plan {
	return &plan{seed: seed, noise: noise, tags: tags, points: map[string]int{}, parked: make(chan struct{}), release: make(chan struct{})}
}

func installHook() { ipfslog.SetVerifHook(hookFn) }

// enableNoise installs a process-wide noise plan: every hook point of every log yields or sleeps for seeded
// small amounts. Used by the in-process checks whose histories contain concurrent bursts; it only influences
// which interleavings are realised.
func enableNoise(seed int64) {
	installHook()
	activePlan.Store(newPlan(uint64(seed)*2654435761, true, map[*ipfslog.IPFSLog]string{}))
}

func (p *plan) traceCopy() []string {
	p.mu.Lock()
	defer p.mu.Unlock()
	return append([]string(nil), p.trace...)
}

// ---------------------------------------------------------------- goroutine-dump classifier

// (a bare "semacquire" alone does not count: that is also what a goroutine held by the runtime itself shows - GC assist,
// stop-the-world; see semWait)
var lockWait = regexp.MustCompile(`\[(sync\.RWMutex\.R?Lock|sync\.Mutex\.Lock|sync\.Cond\.Wait|sync\.WaitGroup\.Wait|chan send)(, \d+ minutes)?\]`)

// semWait: with this toolchain (go1.23) a goroutine inside sync.WaitGroup.Wait shows the bare state "semacquire" - the same
// state a goroutine shows while the RUNTIME holds it (GC assist, stop-the-world). The two are told apart by the stack: a
// wait of the sync package goes through sync.runtime_Semacquire, a runtime hold does not.
var semState = regexp.MustCompile(`^goroutine \d+ \[semacquire(, \d+ minutes)?\]`)

func semWait(first, block string) bool {
	return semState.MatchString(first) && strings.Contains(block, "sync.runtime_Semacquire")
}

// libGoroutinesBlocked returns, for goroutines with a library frame on their stack,
// how many there are and how many are in a lock wait.
func libGoroutinesBlocked(dump string) (total, blocked int, blockedStacks []string) {
	for _, g := range strings.Split(dump, "\n\n") {
		if !strings.Contains(g, "berty.tech/go-ipfs-log.") {
			continue
		}
		total++
		first := g
		if i := strings.Index(g, "\n"); i > 0 {
			first = g[:i]
		}
		if lockWait.MatchString(first) || semWait(first, g) {
			blocked++
			if len(blockedStacks) < 6 {
				blockedStacks = append(blockedStacks, clipStr(g, 1500))
			}
		}
	}
	return
}

// guardCall runs fn (scenario set-up that calls into the library) and decides on state whether it is stuck:
// dead=true iff fn has not returned and, in two dumps taken apart, every goroutine with a library frame is in a
// lock wait. A plain timeout without that state is reported as ok=false, dead=false (inconclusive).
func guardCall(fn func(), limit time.Duration) (ok, dead bool, dump string) {
	done := make(chan struct{})
	go func() { defer close(done); fn() }()
	start := time.Now()
	for {
		select {
		case <-done:
			return true, false, ""
		case <-time.After(100 * time.Millisecond):
		}
		if time.Since(start) < 2*time.Second {
			continue
		}
		d1 := goroutineDump()
		t1, b1, _ := libGoroutinesBlocked(d1)
		time.Sleep(400 * time.Millisecond)
		select {
		case <-done:
			return true, false, ""
		default:
		}
		t2, b2, stacks := libGoroutinesBlocked(goroutineDump())
		if t1 > 0 && t1 == b1 && t2 == b2 && t1 == t2 {
			return false, true, strings.Join(stacks, "\n\n")
		}
		if time.Since(start) > limit {
			return false, false, ""
		}
	}
}

// waitAll waits for the workers of a scenario. It returns ok=true when all
// finished. Otherwise it classifies on state: deadlocked=true iff in two dumps
// taken a grace period apart every library goroutine is in a lock wait and no
// hook event happened in between; any other watchdog firing is inconclusive.
func waitAll(done <-chan struct{}, p *plan, limit time.Duration) (ok, deadlocked bool, dump string) {
	start := time.Now()
	tick := 50 * time.Millisecond
	lastEvents := -1
	stableSince := time.Time{}
	for {
		select {
		case <-done:
			return true, false, ""
		case <-time.After(tick):
		}
		p.mu.Lock()
		ev := len(p.trace)
		for _, n := range p.points {
			ev += n
		}
		p.mu.Unlock()
		if ev != lastEvents {
			lastEvents = ev
			stableSince = time.Now()
		}
		if time.Since(stableSince) > 1500*time.Millisecond {
			d1 := goroutineDump()
			t1, b1, _ := libGoroutinesBlocked(d1)
			time.Sleep(500 * time.Millisecond)
			select {
			case <-done:
				return true, false, ""
			default:
			}
			d2 := goroutineDump()
			t2, b2, stacks := libGoroutinesBlocked(d2)
			p.mu.Lock()
			ev2 := len(p.trace)
			for _, n := range p.points {
				ev2 += n
			}
			p.mu.Unlock()
			if t1 > 0 && t1 == b1 && t2 == b2 && t2 == t1 && ev2 == ev {
				return false, true, strings.Join(stacks, "\n\n")
			}
			stableSince = time.Now()
		}
		if time.Since(start) > limit {
			return false, false, clipStr(goroutineDump(), 8000)
		}
	}
}
