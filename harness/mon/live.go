package mon

import (
	"fmt"
	"math/rand"
	"strings"
	"sync"
	"sync/atomic"
	"time"

	ipfslog "berty.tech/go-ipfs-log"
	"berty.tech/go-ipfs-log/entry"
	"berty.tech/go-ipfs-log/iface"

	"verifharness/evid"
	"verifharness/hx"
	"verifharness/model"
)

// ---------------------------------------------------------------- C14

type liveState struct {
	Set   model.Set
	Heads []string
	Call  int64
	Ret   int64
	Op    string
}

type liveLog struct {
	name  string
	l     *ipfslog.IPFSLog
	chain []liveState // recorded by its single mutator goroutine
	ops   []string    // script
	done  int64       // ops completed (progress counter)
}

type liveJoin struct {
	D, S       int
	Call, Ret  int64
	Before     *liveState
	After      *liveState
	Err        string
	FrozenName string
}

func CheckC14(run *evid.Run) {
	run.Rule = "scenarios in which every log has exactly one mutator goroutine (so its state chain S_0..S_m is recorded exactly, with logical call/return timestamps from one atomic clock) while other goroutines merge FROM it: live-append (source appended by 1-3 alternating writers while the destination merges it repeatedly), live-merge (source merges frozen logs and appends), symmetric cross-merge A.Join(B) || B.Join(A) with appends, rings A<-B<-C<-A; each free-running, with seeded noise at the hooks, and with directed plans that park the merging goroutine between its reads of the source (rawheads.enter / getentries.enter on the source) or while it holds its own lock (join.locked) until the other side progressed or was seen blocked. Offline checker per merge: terminated (state-based deadlock classifier), every head of the result is an entry of the result, the result is causally closed w.r.t. every entry ever created, and result = before U S_i for a recorded source state S_i inside the call/return window, heads = unreferenced entries of that union; race detector on all of it. Non-trivial = a merge during which the source completed or started a mutation (window of >=2 candidate states); distinct = scenario kind + regime + realised hook interleaving digest"
	run.Assumptions = []string{"each log has a single mutator so Observe() right after its operation is its exact post-state; merges only read the source", "window bounds use one atomic logical clock read at the client boundary"}
	opts := ChildOpts{Key: "C14", Race: true, RaceInScope: raceInLibrary, Batches: 2 * Workers(), Timeout: 20 * time.Minute,
		Env: []string{fmt.Sprintf("VERIF_C14_N=%d", pick(run.Tier, 845, 13000))}, // 13 scenario kinds x 65 (quick) / x 1000 (thorough)
		OnDeath: func(last map[string]any, tail, kind string) (string, map[string]any) {
			return "C14/process-died", det("kind", kind, "scenario", last["scenario"])
		}}
	RunChildren(run, opts)
}

func init() { childFns["C14"] = c14Child }

func c14Child(run *evid.Run, batch, nb int, j *Journal) {
	installHook()
	n := envInt("VERIF_C14_N", 0)
	for i := batch; i < n && !evid.IsSaturated(); i += nb {
		c14Scenario(run, i, j)
	}
}

var c14Kinds = []string{"live-append", "live-merge", "cross", "ring", "cross", "live-append", "cross-4party", "stalled-reader", "ladder", "after-refusals", "hub", "bounded-source", "busy-source"}
var c14Regimes = []string{"free", "noise", "park-source-heads-read", "park-source-entries-read", "park-holding-own-lock"}

// c14FourParty: two logs merge each other in loops while a separate goroutine appends to each of them. With two
// mutators per log the state chain is no longer exact, so only the schedule-independent clauses are checked:
// termination, every head is an entry, causal closure, nothing that was appended or merged is lost from the view.
func c14FourParty(run *evid.Run, i int, regime string, j *Journal) {
	rng := rand.New(rand.NewSource(run.Seed*331 + int64(i)))
	w := hx.NewWorld(run.Seed, 4, fmt.Sprintf("c14p-%d-%d", run.Seed, i), "hash", "cbor")
	label := fmt.Sprintf("#%d cross-4party regime=%s", i, regime)
	j.Log(map[string]any{"scenario": label})
	logs := []*ipfslog.IPFSLog{w.NewLog(0), w.NewLog(1)}
	for k, l := range logs {
		for n := rng.Intn(3); n > 0; n-- {
			_, _ = l.Append(w.Ctx, []byte(fmt.Sprintf("init-%d-%d", k, n)), nil)
		}
	}
	tags := map[*ipfslog.IPFSLog]string{logs[0]: "A", logs[1]: "B"}
	p := newPlan(uint64(run.Seed)*37+uint64(i), regime == "noise", tags)
	switch regime {
	case "park-source-heads-read":
		p.parkLog, p.parkPoint = logs[0], "rawheads.enter"
	case "park-source-entries-read":
		p.parkLog, p.parkPoint = logs[0], "getentries.enter"
	case "park-holding-own-lock":
		p.parkLog, p.parkPoint = logs[1], "join.locked"
	}
	activePlan.Store(p)
	nops := 6 + rng.Intn(8)
	var appended [2][]string
	var amu sync.Mutex
	universe := model.Set{}
	done := runWorkers(4, func(g int) {
		k := g % 2
		if g < 2 { // joiner of log k
			for n := 0; n < nops; n++ {
				if _, err := logs[k].Join(logs[1-k], -1); err != nil {
					run.Violate("C14/join-error", det("kind", "cross-4party"), map[string]any{"scenario": label}, "merge failed: %v", err)
				}
			}
			return
		}
		for n := 0; n < nops; n++ { // appender of log k
			e, err := logs[k].Append(w.Ctx, []byte(fmt.Sprintf("%c-%d", 'A'+k, n)), nil)
			if err != nil {
				run.Violate("C14/append-error", det(), map[string]any{"scenario": label}, "append failed: %v", err)
				continue
			}
			amu.Lock()
			appended[k] = append(appended[k], e.GetHash().String())
			universe[e.GetHash().String()] = hx.ToModel(e)
			amu.Unlock()
		}
	})
	if p.parkLog != nil {
		go func() {
			select {
			case <-p.parked:
				time.Sleep(15 * time.Millisecond)
			case <-done:
			}
			close(p.release)
		}()
	}
	ok, dead, dump := waitAll(done, p, 60*time.Second)
	activePlan.Store(nil)
	run.Eval(1)
	run.Count("scenarios_cross-4party", 1)
	run.Count("regime_"+regime, 1)
	tr := p.traceCopy()
	wit := func() map[string]any {
		return map[string]any{"scenario": label, "seed": run.Seed, "ops_per_goroutine": nops, "hook_trace_tail": tail(tr, 80)}
	}
	if !ok {
		if dead {
			wt := wit()
			wt["blocked_goroutines"] = dump
			run.Violate("C14/deadlock", det("kind", "cross-4party", "regime", regime), wt, "two logs merging each other while both are appended to deadlocked (%s)", label)
		} else {
			run.Inconclusive("watchdog fired without a deadlock state: " + label)
		}
		return
	}
	for k, l := range logs {
		o := hx.Observe(l)
		d := det("kind", "cross-4party", "regime", regime)
		for _, hd := range o.Heads {
			if _, in := o.Set[hd]; !in {
				run.Violate("C14/head-not-entry", d, wit(), "log %c: head %s is not an entry", 'A'+k, hx.Short(hd))
			}
		}
		for hs, e := range o.Set {
			for _, n := range e.Next {
				if _, in := o.Set[n]; !in {
					run.Violate("C14/not-closed", d, wit(), "log %c holds %s but not its predecessor %s", 'A'+k, hx.Short(hs), hx.Short(n))
				}
			}
		}
		if !model.EqualAsSets(o.Heads, model.Heads(o.Set)) {
			run.Violate("C14/heads", d, wit(), "log %c: heads %v are not the unreferenced entries %v", 'A'+k, hx.SortedShorts(o.Heads), hx.Shorts(model.Heads(o.Set)))
		}
		in := setOf(o.Values)
		for _, a := range appended[k] {
			if !in[a] {
				run.Violate("C14/append-lost", d, wit(), "an entry appended to log %c while it was merging is missing from its values afterwards", 'A'+k)
				break
			}
		}
		if len(o.Values) != len(o.Set) {
			run.Violate("C14/not-a-snapshot", d, wit(), "log %c holds %d entries but its view has %d", 'A'+k, len(o.Set), len(o.Values))
		}
	}
	run.NonTrivial("cross-4party/" + regime + "/" + model.DigestSeq(tr))
}

// c14StalledReader: somebody iterates the SOURCE through an unbuffered channel and stops consuming; the source is
// appended to; a merge from the source must still terminate. Every other scenario uses an access controller that
// inspects the log through its context on the destination.
func c14StalledReader(run *evid.Run, i int, j *Journal) {
	rng := rand.New(rand.NewSource(run.Seed*733 + int64(i)))
	w := hx.NewWorld(run.Seed, 3, fmt.Sprintf("c14s-%d-%d", run.Seed, i), "hash", "cbor")
	label := fmt.Sprintf("#%d stalled-reader", i)
	j.Log(map[string]any{"scenario": label})
	A := w.NewLog(0)
	lo := w.LogOpts(w.LogID)
	if (i/len(c14Kinds))%2 == 0 {
		lo.AccessController = &inspectACL{}
	}
	B, _ := ipfslog.NewLog(w.Store.API(), w.Idents[1], lo)
	p := newPlan(uint64(run.Seed)+uint64(i), (i/len(c14Kinds))%3 == 0, map[*ipfslog.IPFSLog]string{A: "A", B: "B"})
	activePlan.Store(p)
	defer activePlan.Store(nil)
	// set-up is guarded too: with an inspecting controller a sequential merge can already block
	ok, dead, dump := guardCall(func() {
		for n := 3 + rng.Intn(5); n > 0; n-- {
			_, _ = A.Append(w.Ctx, []byte(fmt.Sprintf("a%d", n)), nil)
		}
		_, _ = B.Append(w.Ctx, []byte("b0"), nil)
		_, _ = B.Join(A, -1)
	}, 30*time.Second)
	if !ok {
		if dead {
			run.Violate("C14/deadlock", det("kind", "stalled-reader", "regime", "sequential set-up"), map[string]any{"scenario": label, "blocked_goroutines": dump}, "a merge into a log whose access controller inspects the log never returns (%s)", label)
		} else {
			run.Inconclusive("set-up did not finish: " + label)
		}
		run.Eval(1)
		return
	}
	out := make(chan iface.IPFSLogEntry) // unbuffered
	release := make(chan struct{})
	go func() { _ = A.Iterator(&iface.IteratorOptions{}, out) }()
	go func() {
		<-out // take one entry ...
		<-release
		for range out { // ... and only continue when told to
		}
	}()
	time.Sleep(2 * time.Millisecond)
	done := runWorkers(2, func(g int) {
		if g == 0 {
			for n := 0; n < 3; n++ {
				_, _ = A.Append(w.Ctx, []byte(fmt.Sprintf("a-live-%d", n)), nil)
			}
			return
		}
		for n := 0; n < 3; n++ {
			if _, err := B.Join(A, -1); err != nil {
				run.Violate("C14/join-error", det("kind", "stalled-reader"), map[string]any{"scenario": label}, "merge failed: %v", err)
			}
		}
	})
	ok, dead, dump = waitAll(done, p, 60*time.Second)
	close(release)
	run.Eval(1)
	run.Count("scenarios_stalled-reader", 1)
	if !ok {
		if dead {
			run.Violate("C14/deadlock", det("kind", "stalled-reader"), map[string]any{"scenario": label, "blocked_goroutines": dump}, "a merge from a log that somebody iterates through an unbuffered channel without consuming, while the log is appended to, never terminates (%s)", label)
		} else {
			run.Inconclusive("watchdog fired without a deadlock state: " + label)
		}
		return
	}
	o := hx.Observe(B)
	if !model.EqualAsSets(o.Heads, model.Heads(o.Set)) || len(o.Values) != len(o.Set) {
		run.Violate("C14/heads", det("kind", "stalled-reader"), map[string]any{"scenario": label}, "destination inconsistent after merging from a log with a stalled reader")
	}
	run.NonTrivial(fmt.Sprintf("stalled-reader/%d", i%6))
}

// c14Ladder: two logs append and merge each other every round (every entry has two predecessors: a ladder); a third,
// empty log then merges one of them. Termination is decided on LOGICAL STEPS: the hook inside the difference
// computation is counted and must stay linear in the size of the source; a merge that exceeds the bound is parked
// at the hook (it would otherwise run for 2^rounds steps) and reported.
func c14Ladder(run *evid.Run, i int, j *Journal) {
	rng := rand.New(rand.NewSource(run.Seed*911 + int64(i)))
	w := hx.NewWorld(run.Seed, 3, fmt.Sprintf("c14l-%d-%d", run.Seed, i), "hash", "cbor")
	rounds := 18 + rng.Intn(14)
	label := fmt.Sprintf("#%d ladder rounds=%d", i, rounds)
	j.Log(map[string]any{"scenario": label})
	A, B, C := w.NewLog(0), w.NewLog(1), w.NewLog(2)
	for n := 0; n < rounds; n++ {
		_, _ = A.Append(w.Ctx, []byte(fmt.Sprintf("a%d", n)), nil)
		_, _ = B.Append(w.Ctx, []byte(fmt.Sprintf("b%d", n)), nil)
		_, _ = A.Join(B, -1)
		_, _ = B.Join(A, -1)
	}
	src := hx.Observe(A)
	edges := 0
	for _, e := range src.Set {
		edges += len(e.Next)
	}
	bound := int64(4*(len(src.Set)+edges) + 64)
	var visits int64
	exceeded := make(chan struct{})
	var once sync.Once
	park := make(chan struct{}) // never closed: an exploding merge stays parked
	ipfslog.SetVerifHook(func(l *ipfslog.IPFSLog, point string) {
		if l == C && point == "difference.visit" {
			if atomic.AddInt64(&visits, 1) > bound {
				once.Do(func() { close(exceeded) })
				<-park
			}
		}
	})
	defer installHook()
	done := make(chan error, 1)
	go func() { _, err := C.Join(A, -1); done <- err }()
	run.Eval(1)
	run.Count("scenarios_ladder", 1)
	select {
	case err := <-done:
		if err != nil {
			run.Violate("C14/join-error", det("kind", "ladder"), map[string]any{"scenario": label}, "merge failed: %v", err)
			return
		}
		run.Count("ladder_difference_visits", int(atomic.LoadInt64(&visits)))
		if got := hx.Observe(C); !model.SameKeys(got.Set, src.Set) {
			run.Violate("C14/not-a-snapshot", det("kind", "ladder"), map[string]any{"scenario": label}, "merge of a ladder-shaped log into an empty log gave %d of %d entries", len(got.Set), len(src.Set))
		}
	case <-exceeded:
		run.Violate("C14/does-not-terminate", det("kind", "ladder"), map[string]any{"scenario": label, "entries": len(src.Set), "predecessor_links": edges, "visit_bound": bound},
			"merging a log of %d entries (%d predecessor links, built by %d rounds of cross-merges) visited more than %d entries while computing the difference: the work is not linear in the log (it doubles with every round)", len(src.Set), edges, rounds, bound)
	case <-time.After(120 * time.Second):
		run.Inconclusive("ladder merge neither finished nor exceeded its step bound: " + label)
	}
	run.NonTrivial(fmt.Sprintf("ladder/%d", rounds))
}

func c14Scenario(run *evid.Run, i int, j *Journal) {
	rng := rand.New(rand.NewSource(run.Seed*577215 + int64(i)))
	kind := c14Kinds[i%len(c14Kinds)]
	if kind == "cross-4party" {
		c14FourParty(run, i, c14Regimes[(i/len(c14Kinds))%len(c14Regimes)], j)
		return
	}
	if kind == "stalled-reader" {
		c14StalledReader(run, i, j)
		return
	}
	if kind == "ladder" {
		c14Ladder(run, i, j)
		return
	}
	if kind == "after-refusals" {
		c14AfterRefusals(run, i, j)
		return
	}
	if kind == "hub" {
		c14Hub(run, i, j)
		return
	}
	if kind == "bounded-source" {
		c14BoundedSource(run, i, j)
		return
	}
	if kind == "busy-source" {
		if (i/len(c14Kinds))%3 == 2 {
			c14ShrinkingSource(run, i, j)
			return
		}
		c14BusySource(run, i, j)
		return
	}
	regime := c14Regimes[(i/len(c14Kinds))%len(c14Regimes)]
	w := hx.NewWorld(run.Seed, 4, fmt.Sprintf("c14-%d-%d", run.Seed, i), "hash", "cbor")
	label := fmt.Sprintf("#%d %s regime=%s", i, kind, regime)
	j.Log(map[string]any{"scenario": label})
	var clock int64
	tick := func() int64 { return atomic.AddInt64(&clock, 1) }
	universe := model.Set{}
	var frozen []*ipfslog.IPFSLog
	var frozenSets []model.Set
	for k := 0; k < 3; k++ {
		f := w.NewLog(3)
		for n := 1 + rng.Intn(3); n > 0; n-- {
			_, _ = f.Append(w.Ctx, []byte(fmt.Sprintf("frozen%d-%d", k, n)), nil)
		}
		frozen = append(frozen, f)
		fs := hx.Observe(f).Set
		frozenSets = append(frozenSets, fs)
		for h, e := range fs {
			universe[h] = e
		}
	}
	nlogs := 2
	if kind == "ring" {
		nlogs = 3
	}
	logs := make([]*liveLog, nlogs)
	for k := range logs {
		logs[k] = &liveLog{name: string(rune('A' + k)), l: w.NewLog(k % 3)}
		for n := rng.Intn(3); n > 0; n-- {
			_, _ = logs[k].l.Append(w.Ctx, []byte(fmt.Sprintf("init-%s-%d", logs[k].name, n)), nil)
		}
	}
	nops := 6 + rng.Intn(8)
	switch kind {
	case "live-append": // A = source (appends, alternating writers), B = destination (merges A)
		for n := 0; n < nops; n++ {
			if rng.Intn(4) == 0 {
				logs[0].ops = append(logs[0].ops, fmt.Sprintf("setident:%d", rng.Intn(3)))
			}
			logs[0].ops = append(logs[0].ops, "append")
			logs[1].ops = append(logs[1].ops, "join:0")
		}
	case "live-merge":
		for n := 0; n < nops; n++ {
			if rng.Intn(2) == 0 {
				logs[0].ops = append(logs[0].ops, fmt.Sprintf("frozen:%d", rng.Intn(3)))
			}
			logs[0].ops = append(logs[0].ops, "append")
			logs[1].ops = append(logs[1].ops, "join:0")
			if rng.Intn(3) == 0 {
				logs[1].ops = append(logs[1].ops, "append")
			}
		}
	case "cross":
		for n := 0; n < nops; n++ {
			for k := 0; k < 2; k++ {
				if rng.Intn(3) > 0 {
					logs[k].ops = append(logs[k].ops, "append")
				}
				logs[k].ops = append(logs[k].ops, fmt.Sprintf("join:%d", 1-k))
			}
		}
	case "ring":
		for n := 0; n < nops; n++ {
			for k := 0; k < 3; k++ {
				if rng.Intn(3) > 0 {
					logs[k].ops = append(logs[k].ops, "append")
				}
				logs[k].ops = append(logs[k].ops, fmt.Sprintf("join:%d", (k+1)%3))
			}
		}
	}
	tags := map[*ipfslog.IPFSLog]string{}
	for _, ll := range logs {
		tags[ll.l] = ll.name
		o := hx.Observe(ll.l)
		ll.chain = []liveState{{Set: o.Set, Heads: o.Heads, Op: "initial"}}
		for h, e := range o.Set {
			universe[h] = e
		}
	}
	p := newPlan(uint64(run.Seed)*31+uint64(i), regime == "noise", tags)
	// directed parking: the merging goroutine of the LAST log is parked
	joiner := logs[nlogs-1]
	var srcOfJoiner *liveLog
	for _, op := range joiner.ops {
		if strings.HasPrefix(op, "join:") {
			k := 0
			fmt.Sscanf(op, "join:%d", &k)
			srcOfJoiner = logs[k]
			break
		}
	}
	switch regime {
	case "park-source-heads-read":
		p.parkLog, p.parkPoint = srcOfJoiner.l, "rawheads.enter"
	case "park-source-entries-read":
		p.parkLog, p.parkPoint = srcOfJoiner.l, "getentries.enter"
	case "park-holding-own-lock":
		p.parkLog, p.parkPoint = joiner.l, "join.locked"
	}
	activePlan.Store(p)
	var joins []*liveJoin
	var jmu = make(chan struct{}, 1)
	jmu <- struct{}{}
	umu := make(chan struct{}, 1)
	umu <- struct{}{}
	done := runWorkers(nlogs, func(g int) {
		ll := logs[g]
		for n, op := range ll.ops {
			call := tick()
			var jr *liveJoin
			switch {
			case op == "append":
				e, err := ll.l.Append(w.Ctx, []byte(fmt.Sprintf("%s-%d", ll.name, n)), nil)
				if err != nil {
					run.Violate("C14/append-error", det(), map[string]any{"scenario": label}, "append failed: %v", err)
				} else {
					<-umu
					universe[e.GetHash().String()] = hx.ToModel(e)
					umu <- struct{}{}
				}
			case strings.HasPrefix(op, "setident:"):
				k := 0
				fmt.Sscanf(op, "setident:%d", &k)
				ll.l.SetIdentity(w.Idents[k])
			case strings.HasPrefix(op, "frozen:"):
				k := 0
				fmt.Sscanf(op, "frozen:%d", &k)
				if _, err := ll.l.Join(frozen[k], -1); err != nil {
					run.Violate("C14/join-error", det(), map[string]any{"scenario": label}, "merge of a frozen log failed: %v", err)
				}
			case strings.HasPrefix(op, "join:"):
				k := 0
				fmt.Sscanf(op, "join:%d", &k)
				jr = &liveJoin{D: g, S: k, Call: call, Before: &ll.chain[len(ll.chain)-1]}
				if _, err := ll.l.Join(logs[k].l, -1); err != nil {
					jr.Err = err.Error()
				}
			}
			ret := tick()
			o := hx.Observe(ll.l)
			ll.chain = append(ll.chain, liveState{Set: o.Set, Heads: o.Heads, Call: call, Ret: ret, Op: op})
			if jr != nil {
				jr.Ret = ret
				jr.After = &ll.chain[len(ll.chain)-1]
				<-jmu
				joins = append(joins, jr)
				jmu <- struct{}{}
			}
			atomic.AddInt64(&ll.done, 1)
		}
	})
	// controller for the parked goroutine
	parkRealised := false
	if p.parkLog != nil {
		go func() {
			select {
			case <-p.parked:
			case <-done:
				close(p.release)
				return
			}
			parkRealised = true
			start := atomic.LoadInt64(&srcOfJoiner.done)
			if regime == "park-holding-own-lock" {
				// let every other mutator run into us (or finish)
				time.Sleep(20 * time.Millisecond)
			} else {
				for k := 0; k < 400 && atomic.LoadInt64(&srcOfJoiner.done) < start+1+int64(k%2); k++ {
					time.Sleep(100 * time.Microsecond)
				}
			}
			close(p.release)
		}()
	}
	ok, dead, dump := waitAll(done, p, 60*time.Second)
	activePlan.Store(nil)
	run.Eval(1)
	run.Count("scenarios_"+kind, 1)
	run.Count("regime_"+regime, 1)
	tr := p.traceCopy()
	wit := func() map[string]any {
		scripts := map[string][]string{}
		for _, ll := range logs {
			scripts[ll.name] = ll.ops
		}
		return map[string]any{"scenario": label, "seed": run.Seed, "scripts": scripts, "hook_trace_tail": tail(tr, 80)}
	}
	if !ok {
		if dead {
			wt := wit()
			wt["blocked_goroutines"] = dump
			run.Violate("C14/deadlock", det("kind", kind, "regime", regime), wt, "logs merging each other deadlocked (%s): every library goroutine is in a lock wait", label)
		} else {
			run.Inconclusive("watchdog fired without a deadlock state: " + label)
		}
		return
	}
	if p.parkLog != nil {
		if parkRealised {
			run.Count("directed_parks_realised", 1)
		} else {
			run.Count("directed_parks_not_realised", 1)
		}
	}
	// ---- offline checker
	nontrivial := false
	for _, jr := range joins {
		run.Count("live_merges_checked", 1)
		D, S := logs[jr.D], logs[jr.S]
		d := det("kind", kind, "regime", regime)
		where := fmt.Sprintf("%s.Join(%s) call=%d ret=%d", D.name, S.name, jr.Call, jr.Ret)
		if jr.Err != "" {
			run.Violate("C14/join-error", d, wit(), "%s failed: %s", where, jr.Err)
			continue
		}
		after := jr.After
		// (b) every head is an entry
		for _, h := range after.Heads {
			if _, okh := after.Set[h]; !okh {
				run.Violate("C14/head-not-entry", d, wit(), "%s: head %s of the result is not an entry of the result", where, hx.Short(h))
			}
		}
		// (c) causal closure w.r.t. everything ever created
		for h, e := range after.Set {
			for _, n := range e.Next {
				if _, in := after.Set[n]; !in {
					if _, known := universe[n]; known {
						run.Violate("C14/not-closed", d, wit(), "%s: result contains %s but not its predecessor %s", where, hx.Short(h), hx.Short(n))
					}
				}
			}
		}
		// (d) union with a state the source really had inside the window
		lo, hi := 0, 0
		for idx, st := range S.chain {
			if idx > 0 && st.Ret < jr.Call {
				lo = idx
			}
			if idx > 0 && st.Call < jr.Ret {
				hi = idx
			}
		}
		if hi < lo {
			hi = lo
		}
		match := -1
		for idx := lo; idx <= hi && idx < len(S.chain); idx++ {
			if model.SameKeys(after.Set, model.Union(jr.Before.Set, S.chain[idx].Set)) {
				match = idx
				break
			}
		}
		if match < 0 {
			run.Violate("C14/not-a-snapshot", d, wit(), "%s: result (%d entries) is not the union of the destination (%d entries) with any state the source had between call and return (candidate states %d..%d of %d, sizes %v)", where, len(after.Set), len(jr.Before.Set), lo, hi, len(S.chain)-1, chainSizes(S.chain, lo, hi))
		} else if !model.EqualAsSets(after.Heads, model.Heads(after.Set)) {
			run.Violate("C14/heads", d, wit(), "%s: heads %v are not the unreferenced entries %v of the result", where, hx.SortedShorts(after.Heads), hx.Shorts(model.Heads(after.Set)))
		}
		if hi > lo {
			nontrivial = true
			run.Count("merges_with_window_of_2plus_source_states", 1)
		}
	}
	if nontrivial {
		run.NonTrivial(kind + "/" + regime + "/" + model.DigestSeq(tr))
	}
	if i < 3 || run.NumSamples() < 2 {
		run.Sample(wit())
	}
}

func chainSizes(c []liveState, lo, hi int) []int {
	var out []int
	for i := lo; i <= hi && i < len(c); i++ {
		out = append(out, len(c[i].Set))
	}
	return out
}

var _ iface.IPFSLogEntry

// c14AfterRefusals: the destination first refuses a number of merges (logs with mis-signed entries, 1-60 refused
// entries in total), then merges from a source that is being appended to - and the source merges back. What
// the refused merges left behind must not keep later merges from terminating or from taking everything.
func c14AfterRefusals(run *evid.Run, i int, j *Journal) {
	rng := rand.New(rand.NewSource(run.Seed*919 + int64(i)))
	w := hx.NewWorld(run.Seed, 3, fmt.Sprintf("c14r-%d-%d", run.Seed, i), "hash", "cbor")
	A, D := w.NewLog(0), w.NewLog(1)
	target := []int{1, 5, 15, 16, 17, 31, 33, 60}[rng.Intn(8)]
	label := fmt.Sprintf("#%d after-refusals: destination refuses merges with %d mis-signed entries in total, then merges a live source", i, target)
	j.Log(map[string]any{"scenario": label})
	p := newPlan(uint64(run.Seed)+uint64(i), (i/len(c14Kinds))%2 == 0, map[*ipfslog.IPFSLog]string{A: "A", D: "D"})
	activePlan.Store(p)
	defer activePlan.Store(nil)
	refused, accepted := 0, 0
	ok, dead, dump := guardCall(func() {
		for n := 0; refused < target; n++ {
			m := 1 + rng.Intn(10)
			if n == 0 && rng.Intn(2) == 0 {
				m = target // all of them in ONE refused merge (more than the log's concurrency limit when target > 16)
			}
			if m > target-refused {
				m = target - refused
			}
			src := w.NewLog(2)
			var ents []iface.IPFSLogEntry
			for k := 0; k < m; k++ {
				e, err := src.Append(w.Ctx, []byte(fmt.Sprintf("refused-%d-%d", n, k)), nil)
				if err != nil {
					return
				}
				c := e.Copy()
				sig := append([]byte(nil), e.GetSig()...)
				sig[len(sig)/2] ^= 0x20
				c.SetSig(sig)
				ents = append(ents, c)
			}
			lo := w.LogOpts(w.LogID)
			lo.Entries = entry.NewOrderedMapFromEntries(ents)
			lo.Heads = []iface.IPFSLogEntry{ents[len(ents)-1]}
			bad, err := ipfslog.NewLog(w.Store.API(), w.Idents[2], lo)
			if err != nil {
				return
			}
			if _, err := D.Join(bad, -1); err == nil {
				accepted++
			}
			refused += m
		}
	}, 60*time.Second)
	wit := func() map[string]any {
		return map[string]any{"scenario": label, "seed": run.Seed, "hook_trace_tail": tail(p.traceCopy(), 60)}
	}
	if !ok {
		if dead {
			wt := wit()
			wt["blocked_goroutines"] = dump
			run.Violate("C14/deadlock", det("kind", "after-refusals", "phase", "refusals"), wt, "a merge never returned while the destination was refusing merges (%s)", label)
		} else {
			run.Inconclusive("watchdog fired without a deadlock state: " + label)
		}
		return
	}
	if accepted > 0 {
		run.Violate("C14/join-error", det("kind", "after-refusals"), wit(), "%d merges of logs with mis-signed entries were accepted", accepted)
	}
	nops := 6 + rng.Intn(10)
	var appended []string
	done := runWorkers(3, func(g int) {
		switch g {
		case 0:
			for n := 0; n < nops; n++ {
				if e, err := A.Append(w.Ctx, []byte(fmt.Sprintf("live-%d", n)), nil); err == nil {
					appended = append(appended, e.GetHash().String())
				}
			}
		case 1:
			for n := 0; n < nops; n++ {
				if _, err := D.Join(A, -1); err != nil {
					run.Violate("C14/join-error", det("kind", "after-refusals"), wit(), "merge from the live source failed: %v", err)
				}
			}
		default:
			for n := 0; n < nops/2; n++ {
				_, _ = A.Join(D, -1)
			}
		}
	})
	ok, dead, dump = waitAll(done, p, 60*time.Second)
	run.Eval(1)
	run.Count("scenarios_after-refusals", 1)
	run.Count("merges_refused_before_the_live_merges", refused)
	if !ok {
		if dead {
			wt := wit()
			wt["blocked_goroutines"] = dump
			run.Violate("C14/deadlock", det("kind", "after-refusals", "refused_entries_ge_16", target >= 16), wt, "after the destination had refused %d mis-signed entries, merging from a live source never terminates (%s)", target, label)
		} else {
			run.Inconclusive("watchdog fired without a deadlock state: " + label)
		}
		return
	}
	// a final merge after everything stopped must bring the destination up to the source
	if okf, deadf, dumpf := guardCall(func() { _, _ = D.Join(A, -1) }, 60*time.Second); !okf {
		if deadf {
			wt := wit()
			wt["blocked_goroutines"] = dumpf
			run.Violate("C14/deadlock", det("kind", "after-refusals", "phase", "final"), wt, "final merge never returned (%s)", label)
		}
		return
	}
	in := setOf(hx.Observe(D).Values)
	for _, a := range appended {
		if !in[a] {
			run.Violate("C14/not-a-snapshot", det("kind", "after-refusals"), wit(), "after a final merge the destination misses an entry the source holds (%s)", label)
			break
		}
	}
	run.NonTrivial(fmt.Sprintf("after-refusals/%d/%s", target, model.DigestSeq(p.traceCopy())))
}

// c14Hub: several logs keep merging FROM one hub log while the hub itself keeps merging other logs (frozen
// branches that each add a head, a stale copy of itself, and the spokes): three parties meet on the hub's heads.
// Checked: termination (state-based), and after a final round every log holds everything.
func c14Hub(run *evid.Run, i int, j *Journal) {
	rng := rand.New(rand.NewSource(run.Seed*1031 + int64(i)))
	k := i / len(c14Kinds)
	codec, blen := "cbor", 2
	if k%3 == 1 {
		codec, blen = "link", 12 // sealed links: every validation worker re-seals; merges bring dozens of entries at once
	}
	w := hx.NewWorld(run.Seed, 4, fmt.Sprintf("c14h-%d-%d", run.Seed, i), "hash", codec)
	label := fmt.Sprintf("#%d hub: %d spokes merge from a hub that merges frozen branches, a stale copy of itself and the spokes", i, 3+k%2)
	j.Log(map[string]any{"scenario": label})
	hub := w.NewLog(0)
	for n := 0; n < 2+rng.Intn(3); n++ {
		_, _ = hub.Append(w.Ctx, []byte(fmt.Sprintf("hub-%d", n)), nil)
	}
	var branches []*ipfslog.IPFSLog
	for b := 0; b < 6+rng.Intn(8); b++ {
		f := w.NewLog(1 + b%3)
		for n := 0; n < 1+rng.Intn(blen); n++ {
			_, _ = f.Append(w.Ctx, []byte(fmt.Sprintf("branch%d-%d", b, n)), nil)
		}
		branches = append(branches, f)
	}
	stale := w.NewLog(0)
	_, _ = stale.Join(hub, -1)
	nspokes := 3 + k%2
	var spokes []*ipfslog.IPFSLog
	tags := map[*ipfslog.IPFSLog]string{hub: "H"}
	for sidx := 0; sidx < nspokes; sidx++ {
		sp := w.NewLog(1 + sidx%3)
		_, _ = sp.Append(w.Ctx, []byte(fmt.Sprintf("spoke%d", sidx)), nil)
		spokes = append(spokes, sp)
		tags[sp] = fmt.Sprintf("S%d", sidx)
	}
	p := newPlan(uint64(run.Seed)*53+uint64(i), k%2 == 0, tags)
	activePlan.Store(p)
	defer activePlan.Store(nil)
	rounds := 4 + rng.Intn(4)
	done := runWorkers(1+nspokes, func(g int) {
		if g == 0 {
			for r := 0; r < rounds; r++ {
				for _, b := range branches {
					_, _ = hub.Join(b, -1)
					_, _ = hub.Join(stale, -1)
				}
				for _, sp := range spokes {
					_, _ = hub.Join(sp, -1)
				}
			}
			return
		}
		sp := spokes[g-1]
		for r := 0; r < rounds*len(branches); r++ {
			if _, err := sp.Join(hub, -1); err != nil {
				run.Violate("C14/join-error", det("kind", "hub"), map[string]any{"scenario": label}, "merge from the hub failed: %v", err)
				return
			}
		}
	})
	ok, dead, dump := waitAll(done, p, 60*time.Second)
	run.Eval(1)
	run.Count("scenarios_hub", 1)
	tr := p.traceCopy()
	wit := func() map[string]any {
		return map[string]any{"scenario": label, "seed": run.Seed, "hook_trace_tail": tail(tr, 80)}
	}
	if !ok {
		if dead {
			wt := wit()
			wt["blocked_goroutines"] = dump
			run.Violate("C14/deadlock", det("kind", "hub"), wt, "logs merging from a log that is itself merging never terminate (%s)", label)
		} else {
			run.Inconclusive("watchdog fired without a deadlock state: " + label)
		}
		return
	}
	// quiescent completion: hub takes every spoke, every spoke takes the hub
	okf, deadf, dumpf := guardCall(func() {
		for _, sp := range spokes {
			_, _ = hub.Join(sp, -1)
		}
		for _, sp := range spokes {
			_, _ = sp.Join(hub, -1)
		}
	}, 60*time.Second)
	if !okf {
		if deadf {
			wt := wit()
			wt["blocked_goroutines"] = dumpf
			run.Violate("C14/deadlock", det("kind", "hub", "phase", "final"), wt, "final merges never returned (%s)", label)
		}
		return
	}
	if codec == "link" {
		// merges that bring the whole hub (dozens of entries with sealed links, validated by a crowd of workers) at once,
		// a dozen times: each must come back
		okb, deadb, dumpb := guardCall(func() {
			for m := 0; m < 12; m++ {
				_, _ = w.NewLog(m%4).Join(hub, -1)
			}
		}, 120*time.Second)
		run.Count("whole_hub_merges_under_the_link_codec", 12)
		if !okb {
			if deadb {
				wt := wit()
				wt["blocked_goroutines"] = dumpb
				run.Violate("C14/deadlock", det("kind", "hub", "phase", "whole-hub merges"), wt, "a fresh log merging the whole hub (%d entries, sealed links) never returned (%s)", hub.Len(), label)
			} else {
				run.Inconclusive("whole-hub merges: watchdog fired without a deadlock state: " + label)
			}
			return
		}
	}
	ho := hx.Observe(hub)
	for sidx, sp := range spokes {
		so := hx.Observe(sp)
		if !model.SameKeys(so.Set, ho.Set) || !model.EqualAsSets(so.Heads, ho.Heads) {
			run.Violate("C14/not-a-snapshot", det("kind", "hub"), wit(), "after the final merges spoke %d holds %d entries / heads %v, the hub %d entries / heads %v", sidx, len(so.Set), hx.SortedShorts(so.Heads), len(ho.Set), hx.SortedShorts(ho.Heads))
			break
		}
		if !model.EqualAsSets(so.Heads, model.Heads(so.Set)) {
			run.Violate("C14/heads", det("kind", "hub"), wit(), "spoke %d: heads %v are not the unreferenced entries %v", sidx, hx.SortedShorts(so.Heads), hx.Shorts(model.Heads(so.Set)))
		}
	}
	run.NonTrivial("hub/" + model.DigestSeq(tr))
}

// busySource is handed to Join in place of the source log: after EVERY read Join makes of the source's heads or
// entries, one append to the source runs to completion (the adversarial schedule "the source is written to between
// any two reads of the merge"). It stops appending after `limit` reads, so that even a merge that waits for the
// source to hold still comes back - and is reported.
type busySource struct {
	*ipfslog.IPFSLog
	w       *hx.World
	reads   int64
	appends int64
	limit   int64
}

func (b *busySource) afterRead() {
	if n := atomic.AddInt64(&b.reads, 1); n <= b.limit {
		if _, err := b.IPFSLog.Append(b.w.Ctx, []byte(fmt.Sprintf("busy-%d", n)), nil); err == nil {
			atomic.AddInt64(&b.appends, 1)
		}
	}
}

func (b *busySource) RawHeads() iface.IPFSLogOrderedEntries {
	r := b.IPFSLog.RawHeads()
	b.afterRead()
	return r
}

func (b *busySource) Heads() iface.IPFSLogOrderedEntries {
	r := b.IPFSLog.Heads()
	b.afterRead()
	return r
}

func (b *busySource) GetEntries() iface.IPFSLogOrderedEntries {
	r := b.IPFSLog.GetEntries()
	b.afterRead()
	return r
}

// shrinkingSource: between the two reads Join makes of its source (heads, then entries) a SIZE-BOUNDED merge into the
// source runs to completion - the one kind of writer after which the source holds LESS than before.
type shrinkingSource struct {
	*ipfslog.IPFSLog
	other *ipfslog.IPFSLog
	size  int
	done  int32
}

func (b *shrinkingSource) GetEntries() iface.IPFSLogOrderedEntries {
	if atomic.CompareAndSwapInt32(&b.done, 0, 1) {
		_, _ = b.IPFSLog.Join(b.other, b.size)
	}
	return b.IPFSLog.GetEntries()
}

// c14ShrinkingSource: the source is "merged into" with a size bound while it is being merged from. The result must be the
// union with the source as it was before that merge or as it is after it.
func c14ShrinkingSource(run *evid.Run, i int, j *Journal) {
	rng := rand.New(rand.NewSource(run.Seed*1409 + int64(i)))
	w := hx.NewWorld(run.Seed, 3, fmt.Sprintf("c14z-%d-%d", run.Seed, i), "hash", "cbor")
	label := fmt.Sprintf("#%d shrinking-source: a size-bounded merge into the source completes between the two reads the merge makes of it", i)
	j.Log(map[string]any{"scenario": label})
	src, other, dst := w.NewLog(0), w.NewLog(1), w.NewLog(2)
	k := 3 + rng.Intn(4)
	for n := 0; n < k; n++ {
		_, _ = src.Append(w.Ctx, []byte(fmt.Sprintf("s%d", n)), nil)
	}
	for n := 0; n < k+1+rng.Intn(3); n++ { // ahead of the source: what the bound keeps is the other log's newest
		_, _ = other.Append(w.Ctx, []byte(fmt.Sprintf("o%d", n)), nil)
	}
	for n := 0; n < rng.Intn(3); n++ {
		_, _ = dst.Append(w.Ctx, []byte(fmt.Sprintf("d%d", n)), nil)
	}
	size := 1 + rng.Intn(2)
	before, dstBefore := hx.Observe(src), hx.Observe(dst)
	ss := &shrinkingSource{IPFSLog: src, other: other, size: size}
	var err error
	run.Eval(1)
	run.Count("scenarios_shrinking-source", 1)
	okj, deadj, dumpj := guardCall(func() { _, err = dst.Join(ss, -1) }, 120*time.Second)
	wit := func() map[string]any {
		return map[string]any{"scenario": label, "seed": run.Seed, "source_entries_before": len(before.Set), "bound_of_the_merge_into_the_source": size}
	}
	if !okj {
		if deadj {
			wt := wit()
			wt["blocked_goroutines"] = dumpj
			run.Violate("C14/deadlock", det("kind", "shrinking-source"), wt, "the merge never returned (%s)", label)
		} else {
			run.Inconclusive("shrinking-source merge did not return: " + label)
		}
		return
	}
	if err != nil {
		run.Violate("C14/join-error", det("kind", "shrinking-source"), wit(), "merge failed: %v", err)
		return
	}
	after, got := hx.Observe(src), hx.Observe(dst)
	wantA, wantB := model.Union(dstBefore.Set, before.Set), model.Union(dstBefore.Set, after.Set)
	if !model.SameKeys(got.Set, wantA) && !model.SameKeys(got.Set, wantB) {
		wt := wit()
		wt["result_entries"], wt["destination_before"], wt["source_after"] = len(got.Set), len(dstBefore.Set), len(after.Set)
		run.Violate("C14/not-a-snapshot", det("kind", "shrinking-source", "source_trimmed_between_the_two_reads_of_the_merge", "true"), wt,
			"the merge result holds %d entries: neither the union with the source before the size-bounded merge into it (%d) nor with the source after it (%d)", len(got.Set), len(wantA), len(wantB))
	}
	if !model.EqualAsSets(got.Heads, model.Heads(got.Set)) {
		run.Violate("C14/heads", det("kind", "shrinking-source"), wit(), "heads %v, unreferenced entries %v", hx.SortedShorts(got.Heads), hx.Shorts(model.Heads(got.Set)))
	}
	run.NonTrivial(fmt.Sprintf("shrinking-source/%d/%d", k, size))
}

// c14BusySource: termination decided on LOGICAL steps. A merge needs a bounded number of looks at its source however
// busy the source is; one that starts over whenever the source moved never returns while the source keeps moving.
func c14BusySource(run *evid.Run, i int, j *Journal) {
	rng := rand.New(rand.NewSource(run.Seed*1301 + int64(i)))
	w := hx.NewWorld(run.Seed, 3, fmt.Sprintf("c14y-%d-%d", run.Seed, i), "hash", []string{"cbor", "link"}[(i/len(c14Kinds))%2])
	label := fmt.Sprintf("#%d busy-source: one append to the source completes after every read the merge makes of it", i)
	j.Log(map[string]any{"scenario": label})
	src, dst, third := w.NewLog(0), w.NewLog(1), w.NewLog(2)
	for k := 0; k < 2+rng.Intn(6); k++ {
		_, _ = src.Append(w.Ctx, []byte(fmt.Sprintf("s%d", k)), nil)
	}
	for k := 0; k < rng.Intn(4); k++ {
		_, _ = dst.Append(w.Ctx, []byte(fmt.Sprintf("d%d", k)), nil)
	}
	if rng.Intn(2) == 0 {
		_, _ = third.Append(w.Ctx, []byte("t0"), nil)
		_, _ = src.Join(third, -1)
	}
	const limit = 400
	bs := &busySource{IPFSLog: src, w: w, limit: limit}
	atCall := hx.Observe(src)
	dstBefore := hx.Observe(dst)
	wit := func() map[string]any {
		return map[string]any{"scenario": label, "seed": run.Seed, "reads_of_the_source_by_one_merge": atomic.LoadInt64(&bs.reads), "appends_to_the_source_meanwhile": atomic.LoadInt64(&bs.appends)}
	}
	var err error
	run.Eval(1)
	run.Count("scenarios_busy-source", 1)
	okj, deadj, dumpj := guardCall(func() { _, err = dst.Join(bs, -1) }, 120*time.Second)
	if !okj {
		if deadj {
			wt := wit()
			wt["blocked_goroutines"] = dumpj
			run.Violate("C14/deadlock", det("kind", "busy-source"), wt, "the merge never returned: every goroutine inside the library is waiting (%s)", label)
		} else {
			run.Inconclusive("busy-source merge did not return: " + label)
		}
		return
	}
	reads := atomic.LoadInt64(&bs.reads)
	if reads > limit {
		run.Violate("C14/does-not-terminate", det("kind", "busy-source"), wit(), "one merge looked at its source %d times, an append to the source completing after every look: it only came back because the source stopped after %d appends - against a source that keeps being written to it never returns", reads, limit)
		return
	}
	if err != nil {
		run.Violate("C14/join-error", det("kind", "busy-source"), wit(), "merge failed: %v", err)
		return
	}
	atReturn := hx.Observe(src)
	got := hx.Observe(dst)
	// the union with a state the source had between call and return: at least what it held at the call, at most what it
	// holds at the return, heads = unreferenced entries, causally closed
	for k := range atCall.Set {
		if _, ok := got.Set[k]; !ok {
			run.Violate("C14/not-a-snapshot", det("kind", "busy-source"), wit(), "the merge result lacks entry %s that the source held when the merge was called", hx.Short(k))
			break
		}
	}
	for k := range got.Set {
		_, a := atReturn.Set[k]
		_, b := dstBefore.Set[k]
		if !a && !b {
			run.Violate("C14/not-a-snapshot", det("kind", "busy-source"), wit(), "the merge result holds entry %s that neither log held", hx.Short(k))
			break
		}
	}
	if !model.EqualAsSets(got.Heads, model.Heads(got.Set)) {
		run.Violate("C14/heads", det("kind", "busy-source"), wit(), "heads %v, unreferenced entries %v", hx.SortedShorts(got.Heads), hx.Shorts(model.Heads(got.Set)))
	}
	if !model.Closed(got.Set) {
		run.Violate("C14/not-closed", det("kind", "busy-source"), wit(), "the merge result is not causally closed")
	}
	run.NonTrivial(fmt.Sprintf("busy-source/%d", reads))
}

// c14BoundedSource: the SOURCE keeps a constant size (it is refreshed by size-bounded merges, like a feed that keeps
// its newest n entries) while a destination merges from it again and again - quiescent between the steps, so
// every merge result must be exactly what the destination held plus what the source holds at that moment.
func c14BoundedSource(run *evid.Run, i int, j *Journal) {
	rng := rand.New(rand.NewSource(run.Seed*1201 + int64(i)))
	w := hx.NewWorld(run.Seed, 3, fmt.Sprintf("c14b-%d-%d", run.Seed, i), "hash", "cbor")
	n := 2 + rng.Intn(4)
	label := fmt.Sprintf("#%d bounded-source: a source that keeps its newest %d entries is merged from after every refresh", i, n)
	j.Log(map[string]any{"scenario": label})
	feed, src, dst := w.NewLog(0), w.NewLog(1), w.NewLog(2)
	wit := func(at string) map[string]any { return map[string]any{"scenario": label, "seed": run.Seed, "at": at} }
	rounds := 4 + rng.Intn(5)
	for r := 0; r < rounds; r++ {
		for k := 0; k < 1+rng.Intn(n+1); k++ {
			if _, err := feed.Append(w.Ctx, []byte(fmt.Sprintf("feed-r%d-%d", r, k)), nil); err != nil {
				return
			}
		}
		// (every merge under the state-based deadlock classifier: a lock leaked by a READ of an empty log shows here)
		guarded := func(what string, fn func() error) bool {
			var err error
			okg, deadg, dumpg := guardCall(func() { err = fn() }, 120*time.Second)
			if !okg {
				if deadg {
					wt := wit(fmt.Sprintf("round %d %s", r, what))
					wt["blocked_goroutines"] = dumpg
					run.Violate("C14/deadlock", det("kind", "bounded-source", "phase", what), wt, "%s never returned: every goroutine inside the library is waiting (%s)", what, label)
				} else {
					run.Inconclusive("bounded-source " + what + " did not return: " + label)
				}
				return false
			}
			if err != nil {
				run.Violate("C14/join-error", det("kind", "bounded-source"), wit(fmt.Sprintf("round %d %s", r, what)), "%s failed: %v", what, err)
				return false
			}
			return true
		}
		if !guarded("size-bounded refresh of the source", func() error { _, err := src.Join(feed, n); return err }) {
			return
		}
		before, so := hx.Observe(dst), hx.Observe(src)
		if !guarded("merge from the bounded source", func() error { _, err := dst.Join(src, -1); return err }) {
			return
		}
		after := hx.Observe(dst)
		run.Count("merges_from_a_constant_size_source", 1)
		want := model.Union(before.Set, so.Set)
		if !model.SameKeys(after.Set, want) {
			missing := ""
			for hsh, e := range so.Set {
				if _, ok := after.Set[hsh]; !ok {
					missing = e.Payload
					break
				}
			}
			run.Violate("C14/not-a-snapshot", det("kind", "bounded-source"), wit(fmt.Sprintf("round %d", r)), "after merging from a source of constant size %d the destination holds %d entries, the union with what the source holds now has %d (e.g. %q of the source is missing)", len(so.Set), len(after.Set), len(want), missing)
			return
		}
		for _, hd := range so.Heads {
			if _, ok := after.Set[hd]; !ok {
				run.Violate("C14/not-a-snapshot", det("kind", "bounded-source"), wit(fmt.Sprintf("round %d", r)), "head %s of the source is missing from the merge result", hx.Short(hd))
				return
			}
		}
	}
	run.Eval(1)
	run.Count("scenarios_bounded-source", 1)
	run.NonTrivial(fmt.Sprintf("bounded-source/%d/%d", n, rounds))
}
