package mon

import (
	"fmt"
	"math/rand"

	ipfslog "berty.tech/go-ipfs-log"
	"berty.tech/go-ipfs-log/entry"
	"berty.tech/go-ipfs-log/iface"

	"verifharness/evid"
	"verifharness/hx"
)

// c07JoinLevel: one tampered (single-field) variant is placed at a seeded depth of a chain of 17-60 honest
// entries and the log is merged into a fresh replica: the merge must be refused.
func c07JoinLevel(run *evid.Run, x *hx.Exec, h *hx.History, e *entry.Entry, cl string, rng *rand.Rand, wit func(string) map[string]any) {
	w := x.W
	src := w.NewLog(0)
	n := 17 + rng.Intn(44)
	var chain []iface.IPFSLogEntry
	for k := 0; k < n; k++ {
		ce, err := src.Append(w.Ctx, []byte(fmt.Sprintf("%d.%d/chain%d", h.Seed, h.Idx, k)), nil)
		if err != nil {
			return
		}
		chain = append(chain, ce)
	}
	pos := rng.Intn(n)
	switch rng.Intn(4) {
	case 0:
		pos = 0
	case 1:
		pos = n - 1
	}
	victim := chain[pos].(*entry.Entry)
	ms := mutations(e)
	var v *entry.Entry
	var name string
	for try := 0; try < 20 && v == nil; try++ {
		m := ms[rng.Intn(len(ms))]
		if m.field == "next" || m.field == "refs" || m.field == "key" {
			continue // would change what the merge traverses / which key verifies; the entry-level matrix covers those
		}
		c := cloneEntry(victim)
		if m.apply(c, rng) {
			v, name = c, m.name
		}
	}
	if v == nil {
		return
	}
	ents := append([]iface.IPFSLogEntry(nil), chain...)
	ents[pos] = v
	lo := w.LogOpts(w.LogID)
	lo.Entries = entry.NewOrderedMapFromEntries(ents)
	lo.Heads = []iface.IPFSLogEntry{ents[n-1]}
	tampered, err := ipfslog.NewLog(w.Store.API(), w.Idents[0], lo)
	if err != nil {
		return
	}
	dst := w.NewLog(0)
	_, jerr := dst.Join(tampered, -1)
	run.Count("join_level_tamper_checks", 1)
	if jerr == nil {
		// a merge may succeed by leaving the tampered entry out (e.g. it now carries another log id);
		// what must never happen is that the tampered entry is admitted
		if _, admitted := dst.Get(victim.Hash); !admitted {
			run.Count("join_level_tampered_entry_left_out", 1)
			return
		}
		wt := wit(name)
		wt["chain_length"] = n
		wt["tampered_position"] = pos
		run.Violate("C07/tampered-entry-merged", det("mutation", name, "codec", h.Codec, "position_mod_16", pos%16, "chain_gt_16", n > 16), wt,
			"a merge of %d entries admitted an entry tampered by %s at depth %d of the chain (codec %s)", n, name, pos, h.Codec)
	}
}
