package mon

import (
	"fmt"
	"math/rand"

	ipfslog "berty.tech/go-ipfs-log"
	"berty.tech/go-ipfs-log/entry"
	"berty.tech/go-ipfs-log/iface"

	"verifharness/evid"
	"verifharness/hx"
)

// c07JoinLevel: one tampered (single-field) variant is placed at a seeded depth of a chain of 17-60 honest
// entries and the log is merged into a fresh replica: the merge must be refused.
func c07JoinLevel(run *evid.Run, x *hx.Exec, h *hx.History, e *entry.Entry, cl string, rng *rand.Rand, wit func(string) map[string]any) {
	w := x.W
	src := w.NewLog(0)
	n := 17 + rng.Intn(44)
	var chain []iface.IPFSLogEntry
	for k := 0; k < n; k++ {
		ce, err := src.Append(w.Ctx, []byte(fmt.Sprintf("%d.%d/chain%d", h.Seed, h.Idx, k)), nil)
		if err != nil {
			return
		}
		chain = append(chain, ce)
	}
	pos := rng.Intn(n)
	switch rng.Intn(4) {
	case 0:
		pos = 0
	case 1:
		pos = n - 1
	}
	victim := chain[pos].(*entry.Entry)
	ms := mutations(e)
	var v *entry.Entry
	var name string
	for try := 0; try < 20 && v == nil; try++ {
		m := ms[rng.Intn(len(ms))]
		if m.field == "next" || m.field == "refs" || m.field == "key" {
			continue // would change what the merge traverses / which key verifies; the entry-level matrix covers those
		}
		c := cloneEntry(victim)
		if m.apply(c, rng) {
			v, name = c, m.name
		}
	}
	if v == nil {
		return
	}
	ents := append([]iface.IPFSLogEntry(nil), chain...)
	ents[pos] = v
	lo := w.LogOpts(w.LogID)
	lo.Entries = entry.NewOrderedMapFromEntries(ents)
	lo.Heads = []iface.IPFSLogEntry{ents[n-1]}
	tampered, err := ipfslog.NewLog(w.Store.API(), w.Idents[0], lo)
	if err != nil {
		return
	}
	dst := w.NewLog(0)
	_, jerr := dst.Join(tampered, -1)
	run.Count("join_level_tamper_checks", 1)
	if jerr == nil {
		// a merge may succeed by leaving the tampered entry out (e.g. it now carries another log id);
		// what must never happen is that the tampered entry is admitted
		if _, admitted := dst.Get(victim.Hash); !admitted {
			run.Count("join_level_tampered_entry_left_out", 1)
			return
		}
		wt := wit(name)
		wt["chain_length"] = n
		wt["tampered_position"] = pos
		run.Violate("C07/tampered-entry-merged", det("mutation", name, "codec", h.Codec, "position_mod_16", pos%16, "chain_gt_16", n > 16), wt,
			"a merge of %d entries admitted an entry tampered by %s at depth %d of the chain (codec %s)", n, name, pos, h.Codec)
	}
}

// c07JoinAfterTrim: a log validates another writer's entries in a size-bounded merge that trims them out again;
// later the same entries are offered with one of them tampered (same hash, same signature). Having seen the
// genuine entry before must not make the log trust the look-alike.
func c07JoinAfterTrim(run *evid.Run, x *hx.Exec, h *hx.History, e *entry.Entry, rng *rand.Rand, wit func(string) map[string]any) {
	w := x.W
	wr := 0
	if len(w.Idents) > 1 {
		wr = 1
	}
	src := w.NewLog(wr)
	m := 1 + rng.Intn(20)
	var chain []iface.IPFSLogEntry
	for k := 0; k < m; k++ {
		ce, err := src.Append(w.Ctx, []byte(fmt.Sprintf("%d.%d/trim%d", h.Seed, h.Idx, k)), nil)
		if err != nil {
			return
		}
		chain = append(chain, ce)
	}
	dst := w.NewLog(0)
	own := m + 1 + rng.Intn(4)
	for k := 0; k < own; k++ {
		if _, err := dst.Append(w.Ctx, []byte(fmt.Sprintf("%d.%d/own%d", h.Seed, h.Idx, k)), nil); err != nil {
			return
		}
	}
	size := rng.Intn(own - m + 1) // only the destination's own newest entries survive
	if _, err := dst.Join(src, size); err != nil {
		run.Violate("C07/honest-bounded-merge-failed", det("codec", h.Codec), wit("bounded merge"), "size-bounded merge of an honest log failed: %v", err)
		return
	}
	pos := rng.Intn(m)
	victim := chain[pos].(*entry.Entry)
	if _, still := dst.Get(victim.Hash); still {
		return // not trimmed out (ties in the ordering): nothing to offer again
	}
	ms := mutations(e)
	var v *entry.Entry
	var name string
	for try := 0; try < 20 && v == nil; try++ {
		mu := ms[rng.Intn(len(ms))]
		if mu.field == "next" || mu.field == "refs" || mu.field == "key" || mu.field == "id" {
			continue
		}
		c := cloneEntry(victim)
		if mu.apply(c, rng) {
			v, name = c, mu.name
		}
	}
	if v == nil {
		return
	}
	ents := append([]iface.IPFSLogEntry(nil), chain...)
	ents[pos] = v
	lo := w.LogOpts(w.LogID)
	lo.Entries = entry.NewOrderedMapFromEntries(ents)
	lo.Heads = []iface.IPFSLogEntry{ents[m-1]}
	tampered, err := ipfslog.NewLog(w.Store.API(), w.Idents[wr], lo)
	if err != nil {
		return
	}
	size2 := -1
	if rng.Intn(3) == 0 {
		size2 = own + m
	}
	_, jerr := dst.Join(tampered, size2)
	run.Count("join_level_tamper_after_bounded_merge_checks", 1)
	if jerr != nil {
		return
	}
	got, admitted := dst.Get(victim.Hash)
	if !admitted {
		return
	}
	if hx.ContentDigest(got) == hx.ContentDigest(victim) {
		return
	}
	wt := wit(name)
	wt["sequence"] = fmt.Sprintf("dst(%d own entries).Join(src of %d entries, size=%d) trims src's entries out; then dst.Join(src with entry #%d tampered by %s, size=%d)", own, m, size, pos, name, size2)
	run.Violate("C07/tampered-entry-merged", det("mutation", name, "codec", h.Codec, "after", "bounded merge that validated and trimmed the genuine entry"), wt,
		"an entry tampered by %s was merged without failing verification after the genuine entry had been validated and trimmed out by an earlier size-bounded merge (codec %s)", name, h.Codec)
}

// c07JoinBounded: the only place the library verifies is Join, also with a size bound. The offered log is
// branched (a chain and a short side branch, two heads); one entry of the chain is tampered; the merge is
// size-bounded with every bound from 1 to beyond the total: a tampered entry must never be in the log afterwards.
func c07JoinBounded(run *evid.Run, x *hx.Exec, h *hx.History, e *entry.Entry, rng *rand.Rand, wit func(string) map[string]any) {
	w := x.W
	wr := 0
	if len(w.Idents) > 1 {
		wr = 1
	}
	b, c := w.NewLog(0), w.NewLog(wr)
	nb := 3 + rng.Intn(6)
	var chain []iface.IPFSLogEntry
	for k := 0; k < nb; k++ {
		ce, err := b.Append(w.Ctx, []byte(fmt.Sprintf("%d.%d/bb%d", h.Seed, h.Idx, k)), nil)
		if err != nil {
			return
		}
		chain = append(chain, ce)
	}
	side := []iface.IPFSLogEntry{}
	for k := 0; k < 1+rng.Intn(2); k++ {
		ce, err := c.Append(w.Ctx, []byte(fmt.Sprintf("%d.%d/bc%d", h.Seed, h.Idx, k)), nil)
		if err != nil {
			return
		}
		side = append(side, ce)
	}
	pos := rng.Intn(nb)
	victim := chain[pos].(*entry.Entry)
	ms := mutations(e)
	var v *entry.Entry
	var name string
	for try := 0; try < 20 && v == nil; try++ {
		mu := ms[rng.Intn(len(ms))]
		if mu.field != "payload" && mu.field != "sig" {
			continue // keeps clock, links and id: the tampered entry stays where it is in the order and in the DAG
		}
		cl := cloneEntry(victim)
		if mu.apply(cl, rng) {
			v, name = cl, mu.name
		}
	}
	if v == nil {
		return
	}
	ents := append(append([]iface.IPFSLogEntry(nil), chain...), side...)
	ents[pos] = v
	total := len(ents)
	for size := 1; size <= total+1; size++ {
		lo := w.LogOpts(w.LogID)
		lo.Entries = entry.NewOrderedMapFromEntries(ents)
		lo.Heads = []iface.IPFSLogEntry{ents[nb-1], side[len(side)-1]}
		offered, err := ipfslog.NewLog(w.Store.API(), w.Idents[0], lo)
		if err != nil {
			return
		}
		dst := w.NewLog(0)
		_, jerr := dst.Join(offered, size)
		run.Count("join_level_tamper_checks_with_a_size_bound", 1)
		if got, in := dst.Get(victim.Hash); in && hx.ContentDigest(got) != hx.ContentDigest(victim) {
			wt := wit(name)
			wt["sequence"] = fmt.Sprintf("offered log: chain of %d (entry #%d tampered by %s) + side branch of %d, two heads; Join(offered, %d) returned %v", nb, pos, name, len(side), size, jerr)
			run.Violate("C07/tampered-entry-merged", det("mutation", name, "codec", h.Codec, "bounded", true), wt,
				"a size-bounded merge (bound %d of %d offered entries) admitted an entry tampered by %s at depth %d of a branched log (codec %s)", size, total, name, nb-1-pos, h.Codec)
			return
		}
	}
}
