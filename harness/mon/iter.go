package mon

import (
	"fmt"
	"math"
	"math/rand"
	"time"

	ipfslog "berty.tech/go-ipfs-log"
	"berty.tech/go-ipfs-log/iface"
	"github.com/ipfs/go-cid"

	"verifharness/evid"
	"verifharness/hx"
	"verifharness/model"
)

type iterQuery struct {
	Upper   string   `json:"upper"` // default | lte | lt | unknown-lte | unknown-lt
	UpperH  []string `json:"upper_hashes,omitempty"`
	Related bool     `json:"lte_related,omitempty"`
	Lower   string   `json:"lower"` // none | gte | gt
	LowerH  string   `json:"lower_hash,omitempty"`
	Amount  *int     `json:"amount"`
}

func (q iterQuery) String() string {
	a := "nil"
	if q.Amount != nil {
		a = fmt.Sprint(*q.Amount)
	}
	return fmt.Sprintf("upper=%s%v lower=%s(%s) amount=%s", q.Upper, hx.Shorts(q.UpperH), q.Lower, hx.Short(q.LowerH), a)
}

type iterResult struct {
	out      []string
	err      error
	closed   bool
	panicked any
	timedOut bool
}

func runIter(l *ipfslog.IPFSLog, q iterQuery, size int) iterResult {
	opts := &iface.IteratorOptions{Amount: q.Amount}
	var cs []cid.Cid
	for _, h := range q.UpperH {
		c, _ := cid.Decode(h)
		cs = append(cs, c)
	}
	switch q.Upper {
	case "lte", "unknown-lte":
		opts.LTE = cs
	case "lt", "unknown-lt":
		opts.LT = cs
	}
	if q.LowerH != "" {
		c, _ := cid.Decode(q.LowerH)
		if q.Lower == "gte" {
			opts.GTE = c
		} else {
			opts.GT = c
		}
	}
	ch := make(chan iface.IPFSLogEntry, 2*size+16)
	done := make(chan iterResult, 1)
	go func() {
		var r iterResult
		defer func() {
			if p := recover(); p != nil {
				r.panicked = p
			}
			done <- r
		}()
		r.err = l.Iterator(opts, ch)
	}()
	var r iterResult
	select {
	case r = <-done:
	case <-time.After(30 * time.Second):
		return iterResult{timedOut: true}
	}
	// drain what is buffered; closure is decided after the call returned
	for {
		select {
		case e, ok := <-ch:
			if !ok {
				r.closed = true
				return r
			}
			r.out = append(r.out, e.GetHash().String())
			continue
		default:
		}
		return r
	}
}

// expected sequence per the property
func iterExpected(set model.Set, heads []string, order string, q iterQuery) (want []string, ok bool) {
	var roots []string
	switch q.Upper {
	case "default":
		roots = heads
	case "lte":
		roots = q.UpperH
	case "lt":
		roots = set[q.UpperH[0]].Next
	default:
		return nil, false
	}
	P := model.Past(set, roots)
	asc := model.Linearise(P, hx.ModelCmp(order))
	S := make([]string, len(asc))
	for i, h := range asc {
		S[len(asc)-1-i] = h
	}
	if q.LowerH != "" {
		idx := -1
		for i, h := range S {
			if h == q.LowerH {
				idx = i
				break
			}
		}
		if idx < 0 {
			return nil, false // lower bound outside the selected range: outside the property
		}
		if q.Lower == "gte" {
			S = S[:idx+1]
		} else {
			S = S[:idx]
		}
		if q.Amount != nil && *q.Amount < len(S) {
			S = S[len(S)-*q.Amount:]
		}
		return S, true
	}
	if q.Amount != nil && *q.Amount < len(S) {
		S = S[:*q.Amount]
	}
	return S, true
}

func seqInts(from, to int) []int {
	var out []int
	for i := from; i <= to; i++ {
		out = append(out, i)
	}
	return out
}

func CheckC15(run *evid.Run) {
	defer func() {
		// iteration vs writers, one scenario at a time in child processes (exact deadlock classification)
		runCases(run, "C15lock", pick(run.Tier, 160, 3000), true, run.Tier == "thorough", ChildOpts{
			OnDeath: func(last map[string]any, tail, kind string) (string, map[string]any) {
				return "C15/panic", det("kind", kind, "scenario", last["scenario"])
			}})
	}()
	nh := pick(run.Tier, 800, 12000)
	perLog := pick(run.Tier, 60, 220)
	run.Rule = "seeded forked histories (default ordering when total, hash-tiebreak); on the final state of every replica a seeded set of iterator queries: upper bound in {default heads, 1-3 inclusive bounds (causally related or unrelated), one exclusive bound, unknown hash}; lower bound in {none, inclusive, exclusive} at seeded positions inside the selected range; amount in {nil, 0, 1, ..., size+2}; every query runs under recover with a buffered channel drained after the call returned. The emitted sequence must equal the model's (past of the upper bound, newest first, cut at the lower bound, first/last `amount`), the channel must be closed on success, unknown upper bounds must be errors. With several causally related inclusive bounds and an amount (no lower bound) the oracle accepts a prefix that is short by at most (#bounds-1), because the property only promises 'at most'. After the queries a writer and a further iteration must complete (state-based: a writer in a lock wait is a violation), also through an unbuffered channel whose consumer writes to the same log. In child processes, one scenario at a time: every kind of bounded iteration is parked at its hook points while an append / merge / identity change starts on the same log (both must end; deadlock = every library goroutine in a lock wait, twice, no hook event), and logs trimmed by a size-bounded merge are iterated with bounds at their oldest entry before a writer is started. Non-trivial query = on a log with a fork and with a lower bound or an amount; distinct = (upper kind, lower kind, amount class, heads>1) + position classes"
	parallel(nh, func(i int) {
		rng := rand.New(rand.NewSource(run.Seed*1299709 + int64(i)))
		h := hx.Gen(run.Seed, i, hx.GenOpts{MaxSteps: pick(run.Tier, 30, 60), Orders: []string{"hash", "default"}, Shapes: []string{"widefork", "diamond", "mixed", "overlap", "lopsided", "ring"}, Huge: true})
		x := hx.NewExec(h)
		forked := false
		for k := range h.Steps {
			x.Do(k)
			if x.Logs[h.Steps[k].R].Heads().Len() > 1 {
				forked = true
			}
		}
		for r, l := range x.Logs {
			// every fifth replica is queried as a log REBUILT WITH A HOLE: loaded from its head list with one interior
			// entry excluded (its predecessors then come in through skip references only, and hang off a head of their own)
			holed := false
			if (i+r)%3 == 2 && l.Len() >= 5 && l.Heads().Len() == 1 {
				vs := l.Values().Slice()
				hole := vs[1+rng.Intn(len(vs)-2)].GetHash()
				isHead := false
				for _, hd := range l.Heads().Slice() {
					isHead = isHead || hd.GetHash().Equals(hole)
				}
				if !isHead {
					if nl, err := x.W.LoadHash(l.Heads().Slice()[0].GetHash(), x.Writer[r], &hx.LoadOpts{ShouldExcl: func(c cid.Cid) bool { return c.Equals(hole) }}); err == nil && nl != nil && nl.Len() >= 3 && nl.Len() < l.Len() {
						l = nl
						holed = true
						run.Count("replicas_queried_as_logs_rebuilt_with_a_hole", 1)
					}
				}
			}
			o := hx.Observe(l)
			// "the heads by default": the entries of the log that no other entry of the log names as predecessor
			o.Heads = model.Heads(o.Set)
			size := len(o.Set)
			if size == 0 || !totalOrder(h.Order, o.Set) {
				continue
			}
			keys := o.Set.Keys()
			// after queries with rejected bounds the log must still accept writers and iterate again
			defer func(l *ipfslog.IPFSLog, r int) {
				c15AfterQueries(run, h, l, r, size)
			}(l, r)
			for qn := 0; qn < perLog; qn++ {
				q := iterQuery{Upper: "default", Lower: "none"}
				switch rng.Intn(10) {
				case 0, 1, 2:
				case 3, 4, 5:
					q.Upper = "lte"
					k := 1 + rng.Intn(3)
					first := keys[rng.Intn(size)]
					q.UpperH = []string{first}
					for len(q.UpperH) < k {
						var c string
						if rng.Intn(2) == 0 {
							// related: something from the past of the first
							p := model.Past(o.Set, []string{first}).Keys()
							c = p[rng.Intn(len(p))]
						} else {
							c = keys[rng.Intn(size)]
						}
						dup := false
						for _, u := range q.UpperH {
							dup = dup || u == c
						}
						if dup {
							break
						}
						q.UpperH = append(q.UpperH, c)
					}
					// related?
					for a := range q.UpperH {
						for b := range q.UpperH {
							if a != b {
								if _, in := model.Past(o.Set, []string{q.UpperH[a]})[q.UpperH[b]]; in {
									q.Related = true
								}
							}
						}
					}
				case 6, 7:
					q.Upper = "lt"
					q.UpperH = []string{keys[rng.Intn(size)]}
				case 8:
					q.Upper = "unknown-lte"
					q.UpperH = []string{foreignCid(fmt.Sprint(rng.Int63())).String()}
					if rng.Intn(3) == 0 {
						q.UpperH = []string{""} // the zero-value (undefined) identifier: held by no log
					}
					// an unknown bound among known ones is still an unknown bound
					for extra := rng.Intn(3); extra > 0; extra-- {
						q.UpperH = append(q.UpperH, keys[rng.Intn(size)])
					}
					rng.Shuffle(len(q.UpperH), func(a, b int) { q.UpperH[a], q.UpperH[b] = q.UpperH[b], q.UpperH[a] })
				case 9:
					q.Upper = "unknown-lt"
					q.UpperH = []string{foreignCid(fmt.Sprint(rng.Int63())).String()}
					if rng.Intn(3) == 0 {
						q.UpperH = []string{""}
					}
				}
				// amount
				switch rng.Intn(6) {
				case 0:
				case 1:
					a := 0
					q.Amount = &a
				case 2:
					a := size + rng.Intn(3)
					q.Amount = &a
				default:
					a := 1 + rng.Intn(size+1)
					q.Amount = &a
				}
				// lower bound inside the selected range
				if q.Upper == "default" || q.Upper == "lte" || q.Upper == "lt" {
					if lk := rng.Intn(3); lk > 0 {
						base, _ := iterExpected(o.Set, o.Heads, h.Order, iterQuery{Upper: q.Upper, UpperH: q.UpperH, Lower: "none"})
						if len(base) > 0 {
							pos := rng.Intn(len(base))
							switch rng.Intn(4) {
							case 0:
								pos = 0
							case 1:
								pos = len(base) - 1
							}
							q.LowerH = base[pos]
							q.Lower = []string{"", "gte", "gt"}[lk]
						}
					}
				}
				res := runIter(l, q, size)
				run.Count("queries", 1)
				d := det("upper", q.Upper, "lower", q.Lower, "amount_zero", q.Amount != nil && *q.Amount == 0, "related", q.Related)
				wit := func() map[string]any {
					m := histSample(h)
					m["replica"] = r
					m["query"] = q
					m["log_size"] = size
					m["emitted"] = hx.Shorts(res.out)
					return m
				}
				if res.timedOut {
					run.Inconclusive("iterator call did not return within 30s: " + q.String())
					continue
				}
				want, inDomain := iterExpected(o.Set, o.Heads, h.Order, q)
				availableBeforeAmount := -1
				if inDomain && q.Amount != nil {
					noAmt := q
					noAmt.Amount = nil
					w2, _ := iterExpected(o.Set, o.Heads, h.Order, noAmt)
					availableBeforeAmount = len(w2)
					d["amount_exceeds_available"] = *q.Amount > len(w2)
				}
				if res.panicked != nil {
					run.Violate("C15/panic", d, wit(), "Iterator panicked: %v (%s, %d available)", res.panicked, q, availableBeforeAmount)
					continue
				}
				if q.Upper == "unknown-lte" || q.Upper == "unknown-lt" {
					if res.err == nil {
						run.Violate("C15/unknown-bound-no-error", d, wit(), "unknown upper bound not reported as an error (%s)", q)
					}
					run.Count("unknown_bound_queries", 1)
					continue
				}
				if res.err != nil && holed && q.Upper == "lt" {
					// an exclusive bound whose own predecessor the log does not hold (the entry right above the hole):
					// what iteration means there is not pinned down by the property; the library reports an error
					run.Count("lt_bounds_above_a_hole_skipped", 1)
					continue
				}
				if res.err != nil {
					run.Violate("C15/unexpected-error", d, wit(), "Iterator returned %v (%s)", res.err, q)
					continue
				}
				if !res.closed {
					run.Violate("C15/no-close", d, wit(), "Iterator returned nil but did not close the output channel (%s)", q)
				}
				if hasDup(res.out) {
					run.Violate("C15/duplicate", d, wit(), "Iterator emitted an entry twice (%s)", q)
				}
				if !inDomain {
					continue
				}
				if q.Amount != nil && len(res.out) > *q.Amount {
					run.Violate("C15/too-many", d, wit(), "Iterator emitted %d entries for amount %d (%s)", len(res.out), *q.Amount, q)
				}
				ok := model.EqualSeq(res.out, want)
				if !ok && q.Related && q.Amount != nil && q.Lower == "none" {
					short := len(want) - len(res.out)
					if short > 0 && short <= len(q.UpperH)-1 && model.EqualSeq(res.out, want[:len(res.out)]) {
						ok = true
						run.Count("related_bounds_short_by_duplicates", 1)
					}
				}
				if !ok {
					run.Violate("C15/sequence", d, wit(), "Iterator emitted %v, expected %v (%s)", hx.Shorts(res.out), hx.Shorts(want), q)
				}
				ac := "nil"
				if q.Amount != nil {
					switch {
					case *q.Amount == 0:
						ac = "0"
					case availableBeforeAmount >= 0 && *q.Amount > availableBeforeAmount:
						ac = ">avail"
					case *q.Amount == availableBeforeAmount:
						ac = "=avail"
					default:
						ac = "<avail"
					}
				}
				run.Count("amount_"+ac, 1)
				if forked && (q.Lower != "none" || q.Amount != nil) {
					run.NonTrivial(fmt.Sprintf("%s%d/%s/%s/rel%v/h%d", q.Upper, len(q.UpperH), q.Lower, ac, q.Related, minInt(len(o.Heads), 3)))
				}
				if qn < 2 && ((i == 0 && r == 0) || run.NumSamples() < 2) {
					run.Sample(map[string]any{"query": q.String(), "emitted": hx.Shorts(res.out), "log_size": size})
				}
			}
		}
		run.Eval(1)
	})
}

// ---------------------------------------------------------------- C16

func CheckC16(run *evid.Run) {
	nh := pick(run.Tier, 400, 8000)
	run.Rule = "pairs of replicas (forked, overlapping, one empty, identical) taken from seeded histories; for every bound n in 0..total+3 the history is replayed on fresh replicas (replay twin, identical hashes) and Join(other, n) is compared with the twin's unbounded Join: entry set = last min(n,total) of the unbounded value sequence, heads = unreferenced entries among them, values = that tail, n >= total identical to the unbounded result; runs under recover; every other pair additionally as a SEQUENCE: the log already trimmed by Join(other,n1) is merged again (same source = an older snapshot of what it dropped, or another replica) for every n2, against the twin that does the second merge unbounded. When the ordering is not total on the merged set only count, subset and heads are compared. Non-trivial = both logs non-empty and different, and 0 < n < total or n > total; distinct = (pair shape digest, n class)"
	run.Assumptions = append(run.Assumptions, "runs in child processes with a journal: a runtime fatal error inside Join (e.g. an allocation sized by the bound) kills the child and is attributed to its input")
	runCases(run, "C16", nh, true, false, ChildOpts{
		OnDeath: func(last map[string]any, tail, kind string) (string, map[string]any) {
			return "C16/panic", det("kind", kind, "n", last["n"])
		}})
}

func init() { registerCases("C16", c16Case) }

func c16Case(run *evid.Run, i int, j *Journal) {
	rng := rand.New(rand.NewSource(run.Seed*4256233 + int64(i)))
	h := hx.Gen(run.Seed, i, hx.GenOpts{MaxSteps: pick(run.Tier, 28, 50), Orders: []string{"hash", "default"}, MaxReplicas: 4,
		Codecs:   []string{[]string{"cbor", "cbor", "pb"}[i%3]}, // the legacy codec names blocks by CIDv0 identifiers
		Failures: i%2 == 1})                                     // refused merges / appends in the pair's past: they must have left nothing behind
	run.Count("pairs_codec_"+h.Codec, 1)
	// choose pair
	a := rng.Intn(h.Replicas)
	b := rng.Intn(h.Replicas - 1)
	if b >= a {
		b++
	}
	if i%4 == 1 {
		// directed shape: b is an older snapshot of a (plus 0-2 entries of its own)
		h.Shape, h.Replicas, h.Writers, h.ReplicaWriter, h.Steps = "older-snapshot", 2, 2, []int{0, 1}, nil
		a, b = 0, 1
		k := 0
		app := func(r int) {
			k++
			h.Steps = append(h.Steps, hx.Step{Op: "append", R: r, PC: 1, Payload: fmt.Sprintf("%d.%d/s%d", h.Seed, h.Idx, k)})
		}
		for n := 1 + rng.Intn(4); n > 0; n-- {
			app(0)
		}
		h.Steps = append(h.Steps, hx.Step{Op: "join", R: 1, S: 0})
		for n := 1 + rng.Intn(5); n > 0; n-- {
			app(0)
		}
		for n := rng.Intn(3); n > 0; n-- {
			app(1)
		}
	}
	useEmpty := i%9 == 4
	// every fourth pair: the SOURCE is a partial log - it was itself trimmed by a size-bounded merge, so its oldest
	// entries name predecessors it does not hold (and the destination may not hold them either)
	partialSrc := i%4 == 3 && !useEmpty
	keepB := -1
	exec := func() *hx.Exec {
		x := hx.NewExec(h)
		for k := range h.Steps {
			x.Do(k)
		}
		if i%5 == 2 && !useEmpty {
			// the source's newest entries carry an empty and a nil payload (legal payloads)
			_, _ = x.Logs[b].Append(x.W.Ctx, []byte{}, nil)
			_, _ = x.Logs[b].Append(x.W.Ctx, nil, nil)
		}
		if partialSrc {
			if keepB < 0 {
				keepB = 0
				if n := x.Logs[b].Len(); n > 1 {
					keepB = 1 + int(uint64(run.Seed*31+int64(i))%uint64(n-1))
				}
			}
			if keepB > 0 {
				// merged with a third replica (or nothing) under a bound: a window with branches of different depth
				third := x.Empty
				if h.Replicas > 2 {
					third = x.Logs[(b+1)%h.Replicas]
					if (b+1)%h.Replicas == a {
						third = x.Logs[(b+2)%h.Replicas]
					}
				}
				func() {
					defer func() { _ = recover() }()
					_, _ = x.Logs[b].Join(third, keepB)
				}()
			}
		}
		return x
	}
	if partialSrc {
		run.Count("pairs_with_a_partial_source", 1)
	}
	src := func(x *hx.Exec) *ipfslog.IPFSLog {
		if useEmpty {
			return x.Empty
		}
		return x.Logs[b]
	}
	ref := exec()
	oa, ob := hx.Observe(ref.Logs[a]), hx.Observe(src(ref))
	if _, err := ref.Logs[a].Join(src(ref), -1); err != nil {
		run.Violate("C16/unbounded-error", det(), histSample(h), "unbounded merge failed: %v", err)
		return
	}
	full := hx.Observe(ref.Logs[a])
	// the reference itself is checked against the model: the unbounded merge holds the union of both logs (the
	// source's entries are all reachable from its heads, also when the source is a trimmed window)
	if want := model.Union(oa.Set, ob.Set); !model.SameKeys(full.Set, want) && model.Closed(oa.Set) {
		m := histSample(h)
		m["pair"] = fmt.Sprintf("r%d.Join(r%d, -1), source partial: %v (trimmed to %d)", a, b, partialSrc, keepB)
		run.Violate("C16/unbounded-not-union", det("partial_source", partialSrc), m, "the unbounded merge holds %d entries, the union of both logs has %d", len(full.Set), len(want))
		return
	}
	total := len(full.Values)
	tot := totalOrder(h.Order, full.Set)
	shape := model.ShapeDigest(full.Set)
	for _, n := range append(seqInts(0, total+3), 1<<40, math.MaxInt64) {
		x := exec()
		var jerr error
		var pan any
		j.Log(map[string]any{"case": i, "n": n, "total": total, "pair": fmt.Sprintf("r%d.Join(r%d, %d)", a, b, n)})
		func() {
			defer func() { pan = recover() }()
			_, jerr = x.Logs[a].Join(src(x), n)
		}()
		run.Count("bounded_merges", 1)
		d := det("n_gt_total", n > total, "n_zero", n == 0, "order", h.Order)
		wit := func() map[string]any {
			m := histSample(h)
			m["pair"] = fmt.Sprintf("r%d.Join(r%d, %d) (empty source: %v)", a, b, n, useEmpty)
			m["sizes"] = fmt.Sprintf("|a|=%d |b|=%d |merged|=%d", len(oa.Set), len(ob.Set), total)
			return m
		}
		if pan != nil {
			run.Violate("C16/panic", d, wit(), "Join(other, %d) panicked with merged size %d: %v", n, total, pan)
			continue
		}
		if jerr != nil {
			run.Violate("C16/error", d, wit(), "Join(other, %d) failed: %v", n, jerr)
			continue
		}
		got := hx.Observe(x.Logs[a])
		m := n
		if m > total {
			m = total
		}
		wantTail := full.Values[total-m:]
		if len(got.Set) != m || got.Len != m {
			run.Violate("C16/count", d, wit(), "Join(other, %d): log holds %d entries (Len %d), want min(n,total)=%d", n, len(got.Set), got.Len, m)
			continue
		}
		if !model.EqualAsSets(got.Heads, model.Heads(got.Set)) {
			run.Violate("C16/heads", d, wit(), "Join(other, %d): heads %v, unreferenced entries %v", n, hx.SortedShorts(got.Heads), hx.Shorts(model.Heads(got.Set)))
		}
		for k := range got.Set {
			if _, ok := full.Set[k]; !ok {
				run.Violate("C16/foreign-entry", d, wit(), "Join(other, %d): entry %s is not in the unbounded merge", n, hx.Short(k))
			}
		}
		if tot {
			if !model.EqualAsSets(got.Set.Keys(), wantTail) {
				run.Violate("C16/not-newest", d, wit(), "Join(other, %d): entries are not the last %d of the unbounded linearisation", n, m)
			} else if !model.EqualSeq(got.Values, wantTail) {
				run.Violate("C16/values", d, wit(), "Join(other, %d): values differ from the tail of the unbounded linearisation", n)
			}
			if n >= total && obsEqual(got, full) != "" {
				run.Violate("C16/large-bound-differs", d, wit(), "Join(other, %d) with n >= total differs from the unbounded merge: %s", n, obsEqual(got, full))
			}
		} else if n > 0 && n < total {
			// the ordering leaves ties (one writer on two replicas): "THE linearisation the unbounded merge would have
			// produced" is then whatever the library does with ties - but it is one linearisation: the same merge of the
			// same two logs (a replay twin: identical entries, identical hashes) must keep the same entries
			x2 := exec()
			var p2 any
			func() {
				defer func() { p2 = recover() }()
				_, _ = x2.Logs[a].Join(src(x2), n)
			}()
			if p2 == nil {
				got2 := hx.Observe(x2.Logs[a])
				run.Count("bounded_merges_repeated_on_a_twin_(ordering_with_ties)", 1)
				if !model.SameKeys(got.Set, got2.Set) {
					run.Violate("C16/not-reproducible", d, wit(), "Join(other, %d) on two identical pairs of logs (ordering with ties) kept different entries: %v vs %v", n, hx.SortedShorts(got.Set.Keys()), hx.SortedShorts(got2.Set.Keys()))
				}
			}
		}
		if len(oa.Set) > 0 && len(ob.Set) > 0 && !model.SameKeys(oa.Set, ob.Set) && n > 0 && n != total {
			nc := "<total"
			if n > total {
				nc = ">total"
			}
			run.NonTrivial(shape + "/" + nc)
		}
	}
	// sequences: a log that was already trimmed by a bounded merge is merged again (with the same
	// source, i.e. an older snapshot of what it dropped, or with another replica)
	for rep := 0; rep < 2 && total >= 3; rep++ {
		n1 := rng.Intn(total) // 0 included: a log emptied by a bound of 0 must keep working too
		if rep == 0 && i%3 == 0 {
			n1 = 0
		}
		c := rng.Intn(h.Replicas)
		if rng.Intn(2) == 0 {
			c = a // the same source again
		}
		second := func(x *hx.Exec) *ipfslog.IPFSLog {
			if c == a {
				return src(x)
			}
			return x.Logs[c]
		}
		ref2 := exec()
		var p1 any
		func() {
			defer func() { p1 = recover() }()
			_, _ = ref2.Logs[a].Join(src(ref2), n1)
			_, _ = ref2.Logs[a].Join(second(ref2), -1)
		}()
		if p1 == nil {
			full2 := hx.Observe(ref2.Logs[a])
			total2 := len(full2.Values)
			tot2 := totalOrder(h.Order, full2.Set)
			for n2 := 0; n2 <= total2+3; n2++ {
				x := exec()
				var pan any
				var jerr error
				func() {
					defer func() { pan = recover() }()
					_, _ = x.Logs[a].Join(src(x), n1)
					_, jerr = x.Logs[a].Join(second(x), n2)
				}()
				run.Count("bounded_merges_of_trimmed_logs", 1)
				d := det("sequence", true, "n_gt_total", n2 > total2, "order", h.Order)
				wit := func() map[string]any {
					m := histSample(h)
					m["pair"] = fmt.Sprintf("r%d.Join(r%d, %d) then r%d.Join(r%d, %d); unbounded second merge gives %d values", a, b, n1, a, c, n2, total2)
					return m
				}
				if pan != nil {
					run.Violate("C16/panic", d, wit(), "second bounded merge Join(other, %d) of an already trimmed log panicked (merged linearisation has %d values): %v", n2, total2, pan)
					continue
				}
				if jerr != nil {
					continue
				}
				got := hx.Observe(x.Logs[a])
				m2 := n2
				if m2 > total2 {
					m2 = total2
				}
				if len(got.Values) != m2 {
					run.Violate("C16/count", d, wit(), "second bounded merge Join(other, %d): %d values, want min(n,total)=%d", n2, len(got.Values), m2)
					continue
				}
				if tot2 && !model.EqualSeq(got.Values, full2.Values[total2-m2:]) {
					run.Violate("C16/values", d, wit(), "second bounded merge Join(other, %d): values are not the tail of the unbounded linearisation", n2)
				}
				if n2 > 0 && n2 < total2 {
					run.NonTrivial(shape + "/seq/" + fmt.Sprint(n1 < total/2))
				}
				// and the trimmed log accepts an append that names its heads
				if n2%3 == 0 {
					var ae iface.IPFSLogEntry
					var aerr error
					func() {
						defer func() { pan = recover() }()
						ae, aerr = x.Logs[a].Append(x.W.Ctx, []byte(fmt.Sprintf("after-trim-%d", n2)), nil)
					}()
					run.Count("appends_to_trimmed_logs", 1)
					if pan != nil {
						run.Violate("C16/panic", d, wit(), "append to a log trimmed by Join(other, %d) then Join(other, %d) panicked: %v", n1, n2, pan)
					} else if aerr != nil {
						run.Violate("C16/append-after-trim", d, wit(), "append to a log trimmed by bounded merges failed: %v", aerr)
					} else if !model.EqualAsSets(hx.Cids(ae.GetNext()), got.Heads) {
						run.Violate("C16/append-after-trim", d, wit(), "append to a log trimmed by bounded merges names %v as predecessors, heads were %v", hx.SortedShorts(hx.Cids(ae.GetNext())), hx.SortedShorts(got.Heads))
					}
				}
			}
		} else {
			run.Violate("C16/panic", det("sequence", true), histSample(h), "bounded merge followed by an unbounded merge panicked: %v", p1)
		}
	}
	run.Eval(1)
	if i < 2 || run.NumSamples() < 2 {
		m := histSample(h)
		m["pair"] = fmt.Sprintf("r%d.Join(r%d, n) for n in 0..%d", a, b, total+3)
		run.Sample(m)
	}
}
