package mon

import (
	ipfslog "berty.tech/go-ipfs-log"
	"berty.tech/go-ipfs-log/entry"
	idp "berty.tech/go-ipfs-log/identityprovider"
	"bytes"
	"fmt"
	"github.com/ipfs/go-cid"
	"math/bits"
	"sync"
	"sync/atomic"

	"berty.tech/go-ipfs-log/iface"

	"verifharness/evid"
	"verifharness/hx"
	"verifharness/model"
)

// ---------------------------------------------------------------- C04

func CheckC04(run *evid.Run) {
	nh := pick(run.Tier, 2000, 30000)
	enableNoise(run.Seed)
	run.Rule = "every Append of seeded histories (lopsided clocks, forks, shared writers, pointer counts 1..64; a fifth of them 'manyheads': one long chain merged with 7-16 short logs so that there are more heads than the pointer count; every other one with refused operations and forks; a third with CONCURRENT BURSTS - appends || merges || reads on one replica - before the appends that are checked) incl. appends after SetIdentity to another writer and after the log was rebuilt from storage by each loader; snapshot-before / returned entry / snapshot-after compared with the model (next = heads before, clock id = current writer's key, time > every entry held, single head after, refs inside past(next), disjoint from next, duplicate-free, |refs| <= floor(log2 pc)+2, and the appended entry dominates the log: every entry held is in its causal past); non-trivial append = on a log with >=2 heads or holding entries of another writer; distinct = (heads before, entries before, pc, writer-changed, reloaded) class digest"
	opts := hx.GenOpts{MaxSteps: pick(run.Tier, 45, 80), Orders: []string{"default", "hash", "fww", "revhash"}, Extra: true, Codecs: []string{"cbor", "cbor", "link", "pb"},
		Shapes: []string{"lopsided", "mixed", "widefork", "diamond", "lopsided", "overlap", "twins", "ring"}}
	parallel(nh, func(i int) {
		o2 := opts
		o2.Failures = i%2 == 1
		o2.Bursts = i%3 == 0 // concurrent bursts before the (sequential) appends that are checked
		if i%5 == 2 {
			o2.Shapes = []string{"manyheads"}
			o2.BigFanout = true
		}
		h := hx.Gen(run.Seed, i, o2)
		x := hx.NewExec(h)
		special := map[int]string{}
		for k, s := range h.Steps {
			where := fmt.Sprintf("step %d %s", k, s)
			wit := func() map[string]any { m := histSample(h); m["at"] = where; return m }
			if s.Op != "append" {
				res := x.Do(k)
				if s.Op == "setident" || (s.Op == "reload" && res.Err == nil) {
					special[s.R] = s.Op
					if s.Op == "reload" {
						special[s.R] = "reload-" + s.Payload
					}
				}
				if s.Op == "reload" && res.Err != nil {
					run.Violate("C04/reload-error", det("loader", s.Payload), wit(), "reload failed: %v", res.Err)
				}
				if s.ExpectsError() {
					special[s.R] = "refused-" + s.Op
				}
				if s.Op == "fork" {
					special[s.R] = "fork"
				}
				if s.Op == "burst" {
					special[s.R] = "concurrent-burst"
					run.Count("concurrent_bursts", 1)
					// entries appended during the burst are checked against the final state of the burst
					fin := hx.Observe(x.Logs[s.R])
					for _, be := range res.Burst {
						if _, ok := fin.Set[be.GetHash().String()]; !ok {
							run.Violate("C04/not-in-log", det("after", "concurrent-burst"), wit(), "entry appended during a concurrent burst is not in the log")
						}
					}
				}
				continue
			}
			l := x.Logs[s.R]
			before := hx.Observe(l)
			res := x.Do(k)
			run.Count("appends", 1)
			if res.Err != nil {
				run.Violate("C04/append-error", det("codec", h.Codec), wit(), "append failed: %v", res.Err)
				continue
			}
			after := hx.Observe(l)
			e := hx.ToModel(res.Entry)
			sp := special[s.R]
			delete(special, s.R)
			d := det("pc", s.PC, "after", sp, "shape", h.Shape, "codec", h.Codec)
			if sp != "" {
				run.Count("appends_after_"+sp, 1)
			}
			// next == heads before (as sets), no dups
			if !model.EqualAsSets(e.Next, before.Heads) {
				run.Violate("C04/next", d, wit(), "appended entry names %v as predecessors, heads were %v (%s)", hx.SortedShorts(e.Next), hx.SortedShorts(before.Heads), where)
			}
			if hasDup(e.Next) || hasDup(e.Refs) {
				run.Violate("C04/dup-links", d, wit(), "duplicate predecessor or reference (%s)", where)
			}
			pk := x.W.Idents[x.Writer[s.R]].PublicKey
			if !bytes.Equal(e.ClockID, pk) {
				run.Violate("C04/clock-id", d, wit(), "clock id is not the writer's public key (%s)", where)
			}
			maxT := 0
			foreign := false
			for _, o := range before.Set {
				if o.Time > maxT {
					maxT = o.Time
				}
				if !bytes.Equal(o.ClockID, pk) {
					foreign = true
				}
			}
			if e.Time <= maxT {
				run.Violate("C04/clock-time", d, wit(), "clock time %d not greater than max time %d in the log (%s)", e.Time, maxT, where)
			}
			if len(after.Heads) != 1 || after.Heads[0] != e.Hash {
				run.Violate("C04/single-head", d, wit(), "after append heads=%v, want only %s (%s)", hx.Shorts(after.Heads), hx.Short(e.Hash), where)
			}
			if _, ok := after.Set[e.Hash]; !ok {
				run.Violate("C04/not-in-log", d, wit(), "appended entry is not in the log (%s)", where)
			}
			// the appended entry dominates the log: everything the log holds is in its causal past
			if dom := model.Past(after.Set, []string{e.Hash}); len(dom) != len(after.Set) {
				run.Violate("C04/does-not-dominate", d, wit(), "after append %d of the log's %d entries are not in the causal past of the appended entry (%s)", len(after.Set)-len(dom), len(after.Set), where)
			}
			past := model.Past(before.Set, e.Next)
			nx := map[string]bool{}
			for _, n := range e.Next {
				nx[n] = true
			}
			for _, r := range e.Refs {
				if _, ok := past[r]; !ok {
					run.Violate("C04/ref-outside-past", d, wit(), "reference %s is not in the causal past of the new entry (%s)", hx.Short(r), where)
				}
				if nx[r] {
					run.Violate("C04/ref-is-next", d, wit(), "reference %s is also a predecessor (%s)", hx.Short(r), where)
				}
			}
			bound := bits.Len(uint(s.PC)) - 1 + 2
			if len(e.Refs) > bound {
				run.Violate("C04/ref-count", d, wit(), "%d references for pointer count %d (bound %d) (%s)", len(e.Refs), s.PC, bound, where)
			}
			if len(e.Refs) > 0 {
				run.Count("appends_with_refs", 1)
			}
			if len(before.Heads) > s.PC {
				run.Count("appends_with_more_heads_than_pointer_count", 1)
			}
			if len(before.Heads) >= 2 || foreign || sp != "" {
				hb := len(before.Heads)
				if hb > 4 {
					hb = 4 + hb/8
				}
				run.NonTrivial(fmt.Sprintf("h%d/n%d/pc%d/f%v/%s/r%d", hb, bucket(len(before.Set)), s.PC, foreign, sp, len(e.Refs)))
				run.Count("nontrivial_appends", 1)
			}
		}
		// two more situations an append can find itself in, with the clauses that do not need a gap-free log
		checkLate := func(l *ipfslog.IPFSLog, writer *idp.Identity, sp, where string) {
			wit := func() map[string]any { m := histSample(h); m["at"] = where; return m }
			before := hx.Observe(l)
			ae, err := l.Append(x.W.Ctx, []byte(fmt.Sprintf("%d.%d/late-%s", h.Seed, h.Idx, sp)), nil)
			run.Count("appends", 1)
			run.Count("appends_after_"+sp, 1)
			d := det("pc", 1, "after", sp, "shape", h.Shape, "codec", h.Codec)
			if err != nil {
				run.Violate("C04/append-error", d, wit(), "append failed: %v (%s)", err, where)
				return
			}
			e := hx.ToModel(ae)
			after := hx.Observe(l)
			if !model.EqualAsSets(e.Next, before.Heads) {
				run.Violate("C04/next", d, wit(), "appended entry names %v as predecessors, heads were %v (%s)", hx.SortedShorts(e.Next), hx.SortedShorts(before.Heads), where)
			}
			if !bytes.Equal(e.ClockID, writer.PublicKey) || !bytes.Equal(ae.GetKey(), writer.PublicKey) {
				run.Violate("C04/clock-id", d, wit(), "clock id (or key) is not the writer's public key (%s)", where)
			}
			for _, o := range before.Set {
				if e.Time <= o.Time {
					run.Violate("C04/clock-time", d, wit(), "clock time %d not greater than the time %d of an entry in the log (%s)", e.Time, o.Time, where)
					break
				}
			}
			if len(after.Heads) != 1 || after.Heads[0] != e.Hash {
				run.Violate("C04/single-head", d, wit(), "after append heads=%v, want only %s (%s)", hx.Shorts(after.Heads), hx.Short(e.Hash), where)
			}
			run.NonTrivial(fmt.Sprintf("late/%s/h%d/n%d", sp, len(before.Heads), bucket(len(before.Set))))
		}
		if i%4 == 3 {
			// the writer changes to the SAME user on another device: same identity id, another public key
			for r, l := range x.Logs {
				if l.Len() == 0 {
					continue
				}
				name := fmt.Sprintf("user%c", 'A'+x.Writer[r])
				other := x.W.OtherDeviceIdentity(name)
				if other.ID != x.W.Idents[x.Writer[r]].ID || bytes.Equal(other.PublicKey, x.W.Idents[x.Writer[r]].PublicKey) {
					panic("harness: the other-device identity must have the same id and another public key")
				}
				l.SetIdentity(other)
				checkLate(l, other, "setident-same-id-other-key", fmt.Sprintf("after the history: r%d's writer %s changes to the same user on another device", r, name))
				break
			}
		}
		if i%4 == 1 && len(x.Logs) >= 2 {
			// merges WITH A SIZE BOUND precede the append: a fresh log takes one replica whole, then another one under a
			// bound that cuts into what it holds
			a, b := x.Logs[0], x.Logs[1%len(x.Logs)]
			for _, l := range x.Logs {
				if l.Len() > a.Len() {
					b, a = a, l
				}
			}
			if a != b && a.Len() >= 2 && b.Len() >= 1 {
				fresh := x.W.NewLog(0)
				if _, err := fresh.Join(a, -1); err == nil {
					size := 1 + (i/4)%(a.Len()+1)
					if _, err := fresh.Join(b, size); err == nil {
						checkLate(fresh, x.W.Idents[0], "size-bounded-merge", fmt.Sprintf("after the history: a fresh log merged one replica (%d entries) whole and another (%d entries) with bound %d", a.Len(), b.Len(), size))
					}
				}
			}
		}
		run.Eval(1)
		if i < 2 || run.NumSamples() < 2 {
			run.Sample(histSample(h))
		}
	})
}

func bucket(n int) int {
	switch {
	case n < 4:
		return n
	case n < 8:
		return 4
	case n < 16:
		return 8
	case n < 32:
		return 16
	}
	return 32
}

func hasDup(a []string) bool {
	m := map[string]bool{}
	for _, x := range a {
		if m[x] {
			return true
		}
		m[x] = true
	}
	return false
}

// ---------------------------------------------------------------- C05

type heldKey struct {
	r    int
	view string
}

func isSubsequence(sub, seq []string) bool {
	j := 0
	for _, s := range seq {
		if j < len(sub) && sub[j] == s {
			j++
		}
	}
	return j == len(sub)
}

func CheckC05(run *evid.Run) {
	nh := pick(run.Tier, 1500, 20000)
	enableNoise(run.Seed)
	run.Rule = "seeded histories under every codec configuration (default, link-encrypting, legacy protobuf), every other one with refused operations and forks, a third with concurrent bursts (appends || merges || a reader of Values(): whatever the reader saw, and every entry appended, must still be in the view afterwards); after every step ALL replicas are swept: each hash seen earlier on a replica must still be there with an identical content digest over every field (also through Get), Len never decreases, the previous value sequence is a subsequence of the new one (order only when the ordering is total on the new state, set inclusion always), and a global shadow hash->digest over all log instances detects in-place mutation of entries shared by pointer; non-trivial iff >=2 heads seen and a merge added entries; distinct = final DAG shape digest + codec"
	opts := hx.GenOpts{MaxSteps: pick(run.Tier, 35, 70), Orders: []string{"default", "hash"}, Codecs: []string{"cbor", "link", "pb", "cbor"}}
	parallel(nh, func(i int) {
		o2 := opts
		o2.Failures = i%2 == 1
		o2.Bursts = i%3 == 0
		o2.Extra = i%4 == 1 // identity changes and rebuilds from storage
		o2.Truncated = i%5 == 4 && !o2.Extra // (logs with gaps are never rebuilt without a limit: see C02)
		o2.SubsetForks = !o2.Extra // (a fork opened with ONE of the source's heads holds entries that are not behind its heads: rebuilt from its heads it comes back without them - not a state that appends and merges reach, so such forks are never rebuilt)
		h := hx.Gen(run.Seed, i, o2)
		x := hx.NewExec(h)
		shadow := map[string]string{}
		objShadow := map[iface.IPFSLogEntry]string{} // keeps the objects alive, so no address is ever reused
		heldMaps := map[heldKey]heldRead{}           // what the read accessors of each replica handed out after the previous step
		prev := make([]*hx.Obs, h.Replicas)
		var tr histTrack
		for k, s := range h.Steps {
			lenBefore := x.Logs[s.R].Len()
			res := x.Do(k)
			where := fmt.Sprintf("step %d %s", k, s)
			wit := func() map[string]any { m := histSample(h); m["at"] = where; return m }
			if res.Err != nil && !s.ExpectsError() {
				run.Violate("C05/op-error", det("op", s.Op, "codec", h.Codec), wit(), "honest %s failed under codec %s: %v", s.Op, h.Codec, res.Err)
			}
			if s.ExpectsError() {
				countRefused(run, s)
			}
			if s.Op == "fork" {
				// the forked replica starts a new life; what it held before is not its past
				prev[s.R] = nil
				run.Count("forks", 1)
			}
			if s.Op == "setident" || s.Op == "reload" {
				run.Count("identity_changes_and_rebuilds", 1)
			}
			if s.Op == "burst" {
				run.Count("concurrent_bursts", 1)
				// whatever a concurrent reader saw in the linearised view during the burst must still be there
				fin := hx.Observe(x.Logs[s.R])
				in := map[string]bool{}
				for _, v := range fin.Values {
					in[v] = true
				}
				for hsh := range res.BurstSeen {
					if !in[hsh] {
						run.Violate("C05/values-lost", det("codec", h.Codec, "op", s.Op), wit(), "entry %s was visible in Values() of r%d during the concurrent burst and is gone afterwards (%s)", hx.Short(hsh), s.R, where)
						break
					}
				}
				for _, be := range res.Burst {
					if !in[be.GetHash().String()] {
						run.Violate("C05/values-lost", det("codec", h.Codec, "op", s.Op), wit(), "entry appended during the concurrent burst is missing from Values() of r%d afterwards (%s)", s.R, where)
						break
					}
				}
				if fin.Len != len(fin.Values) {
					run.Violate("C05/values-lost", det("codec", h.Codec, "op", s.Op), wit(), "after the concurrent burst r%d holds %d entries but its linearised view has %d (%s)", s.R, fin.Len, len(fin.Values), where)
				}
			}
			for key, hm := range heldMaps {
				if now := hm.m.Keys(); !model.EqualSeq(now, hm.keys) {
					run.Violate("C05/read-result-mutated", det("codec", h.Codec, "op", s.Op, "view", key.view), wit(), "the %s result r%d handed out earlier had %d entries then and has %d (or another order) after %s: it aliases live state of the log", key.view, key.r, len(hm.keys), len(now), where)
				}
			}
			for r, l := range x.Logs {
				for view, m := range map[string]iface.IPFSLogOrderedEntries{"GetEntries()": l.GetEntries(), "RawHeads()": l.RawHeads(), "Heads()": l.Heads(), "Values()": l.Values()} {
					heldMaps[heldKey{r, view}] = heldRead{m, append([]string(nil), m.Keys()...)}
				}
				o := hx.Observe(l)
				if o.NilEntries > 0 {
					run.Violate("C05/entry-lost-from-index", det("codec", h.Codec, "op", s.Op), wit(), "r%d hands out %d nil entries after %s (an entry of this instance was overwritten)", r, o.NilEntries, where)
				}
				if r == s.R {
					tr.seeObs(o)
					if s.Op == "join" && o.Len > lenBefore {
						tr.mergeAdded = true
					}
				}
				for obj, od := range o.Objs {
					if d, ok := objShadow[obj]; ok && d != od {
						run.Violate("C05/shared-entry-mutated", det("codec", h.Codec, "op", s.Op, "what", "in-memory side data"), wit(), "the entry object %s held by r%d was modified in place (encrypted-link side data) by %s", hx.Short(obj.GetHash().String()), r, where)
					}
					objShadow[obj] = od
				}
				for hsh, e := range o.Set {
					if d, ok := shadow[hsh]; ok && d != e.Digest {
						run.Violate("C05/shared-entry-mutated", det("codec", h.Codec, "op", s.Op), wit(), "entry %s held by r%d changed content after %s", hx.Short(hsh), r, where)
					}
					shadow[hsh] = e.Digest
				}
				p := prev[r]
				prev[r] = o
				if p == nil {
					continue
				}
				if r != s.R {
					// the step worked on another replica: this one must be exactly as it was
					if df := obsEqual(p, o); df != "" {
						run.Violate("C05/other-instance-altered", det("codec", h.Codec, "op", s.Op), wit(), "r%d changed (%s) although the step worked on r%d only: %s", r, df, s.R, where)
					}
				}
				if o.Len < p.Len {
					run.Violate("C05/len-decreased", det("codec", h.Codec, "op", s.Op), wit(), "Len of r%d went %d -> %d at %s", r, p.Len, o.Len, where)
				}
				for hsh, pe := range p.Set {
					ne, ok := o.Set[hsh]
					if !ok {
						run.Violate("C05/vanished", det("codec", h.Codec, "op", s.Op), wit(), "entry %s vanished from r%d at %s", hx.Short(hsh), r, where)
						continue
					}
					if ne.Digest != pe.Digest {
						run.Violate("C05/changed", det("codec", h.Codec, "op", s.Op), wit(), "entry %s of r%d changed at %s", hx.Short(hsh), r, where)
					}
				}
				// Get(hash) for entries of the previous observation
				for _, e := range l.GetEntries().Slice() {
					if e == nil {
						continue
					}
					g, ok := l.Get(e.GetHash())
					if !ok || hx.ContentDigest(g) != shadow[e.GetHash().String()] {
						run.Violate("C05/get", det("codec", h.Codec), wit(), "Get(%s) on r%d missing or different at %s", hx.Short(e.GetHash().String()), r, where)
					}
				}
				if totalOrder(h.Order, o.Set) {
					if !isSubsequence(p.Values, o.Values) {
						run.Violate("C05/values-not-subsequence", det("codec", h.Codec, "op", s.Op), wit(), "previous values of r%d are not a subsequence of the new values at %s", r, where)
					}
				} else {
					in := map[string]bool{}
					for _, v := range o.Values {
						in[v] = true
					}
					for _, v := range p.Values {
						if !in[v] {
							run.Violate("C05/values-lost", det("codec", h.Codec, "op", s.Op), wit(), "value %s of r%d lost at %s", hx.Short(v), r, where)
						}
					}
				}
			}
		}
		U := model.Set{}
		for r := range x.Logs {
			U = model.Union(U, prevSet(prev[r]))
		}
		// "merges never alter entries held by other log instances" - also not for a moment: three fresh logs merge
		// the same replica at the same time while a watcher keeps digesting the entries that replica holds
		if i%4 == 0 && h.Codec != "pb" {
			src := x.Logs[0]
			for _, l := range x.Logs {
				if l.Len() > src.Len() {
					src = l
				}
			}
			if held := src.GetEntries().Slice(); len(held) >= 3 {
				want := map[iface.IPFSLogEntry]string{}
				for _, e := range held {
					want[e] = hx.ContentDigest(e)
				}
				stop := make(chan struct{})
				var changed atomic.Value
				var wwg, mwg sync.WaitGroup
				wwg.Add(1)
				go func() {
					defer wwg.Done()
					for {
						for e, d := range want {
							// (an entry that cannot even be read consistently while the merges run is being written to)
							now := func() (dg string) {
								defer func() {
									if p := recover(); p != nil {
										dg = fmt.Sprintf("<unreadable: %v>", p)
									}
								}()
								return hx.ContentDigest(e)
							}()
							if now != d {
								changed.Store(fmt.Sprintf("entry %s (key %d bytes, sig %d bytes)", hx.Short(e.GetHash().String()), len(e.GetKey()), len(e.GetSig())))
								return
							}
						}
						select {
						case <-stop:
							return
						default:
						}
					}
				}()
				errs := make([]error, 3)
				for g := 0; g < 3; g++ {
					dst := x.W.NewLog(0)
					mwg.Add(1)
					go func(g int, dst *ipfslog.IPFSLog) {
						defer mwg.Done()
						_, errs[g] = dst.Join(src, -1)
					}(g, dst)
				}
				mwg.Wait()
				close(stop)
				wwg.Wait()
				run.Count("concurrent_merges_of_one_source_with_a_watcher", 1)
				wt := histSample(h)
				wt["at"] = "after the history: three fresh logs merge the largest replica at the same time"
				if c := changed.Load(); c != nil {
					run.Violate("C05/shared-entry-mutated", det("codec", h.Codec, "op", "concurrent merges of one source", "when", "during the merges"), wt, "while other logs were merging it, %s held by the source log did not have its content (a merge wrote to an entry of another log instance)", c)
				}
				for g, err := range errs {
					if err != nil {
						run.Violate("C05/op-error", det("op", "concurrent merges of one source", "codec", h.Codec), wt, "merge %d of 3 concurrent merges of the same honest log failed: %v", g, err)
						break
					}
				}
			}
		}
		// an entry whose link lists REPEAT an element (legal, hand-built through the public constructor) held by one
		// log and merged by another: the holder's object stays byte-identical (link lists included)
		if i%4 == 2 && h.Codec != "pb" {
			src := x.Logs[0]
			for _, l := range x.Logs {
				if l.Len() > src.Len() {
					src = l
				}
			}
			if vs := src.Values().Slice(); len(vs) >= 2 {
				a, b := vs[len(vs)-1].GetHash(), vs[len(vs)-2].GetHash()
				// (the public constructor removes repeats; such an entry comes from a peer - built here field by field, with a
				// signature that does not fit, so the merge below is refused: all the more nothing may be written to it)
				last := vs[len(vs)-1]
				dup := &entry.Entry{LogID: x.W.LogID, Payload: []byte(fmt.Sprintf("%d.%d/repeated-links", h.Seed, h.Idx)), Next: []cid.Cid{a, a, b}, Refs: []cid.Cid{b, b, a}, V: 2,
					Key: append([]byte(nil), last.GetKey()...), Sig: append([]byte(nil), last.GetSig()...), Identity: last.GetIdentity(),
					Clock: entry.NewLamportClock(last.GetClock().GetID(), last.GetClock().GetTime()+1)}
				// the digests are taken BEFORE the library sees the object for the first time (storing it is a library call too)
				before := hx.ObjectDigest(dup)
				nextBefore := fmt.Sprint(hx.Cids(dup.GetNext()), hx.Cids(dup.GetRefs()))
				dh, err := entry.ToMultihashWithIO(x.W.Ctx, dup, x.W.Store.API(), nil, x.W.IOv())
				if nextAfter := fmt.Sprint(hx.Cids(dup.GetNext()), hx.Cids(dup.GetRefs())); nextAfter != nextBefore {
					wt := histSample(h)
					wt["at"] = "after the history: a hand-built entry with next [a a b], refs [b b a] is stored"
					run.Violate("C05/shared-entry-mutated", det("codec", h.Codec, "op", "store", "what", "link lists with a repeated element"), wt,
						"storing an entry (returned %v) changed its link lists: were %s, are now %s", err, nextBefore, nextAfter)
				}
				if err == nil {
					dup.Hash = dh
					before = hx.ObjectDigest(dup)
					ents := src.GetEntries()
					ents.Set(dup.GetHash().String(), dup)
					lo := x.W.LogOpts(x.W.LogID)
					lo.Entries = ents
					lo.Heads = []iface.IPFSLogEntry{dup}
					if holder, err := ipfslog.NewLog(x.W.Store.API(), x.W.Idents[0], lo); err == nil {
						fresh := x.W.NewLog(0)
						_, jerr := fresh.Join(holder, -1)
						run.Count("merges_of_a_log_holding_an_entry_with_repeated_links", 1)
						if after := hx.ObjectDigest(dup); after != before {
							wt := histSample(h)
							wt["at"] = "after the history: a log holding a hand-built entry with next [a a b], refs [b b a] is merged by a fresh log"
							run.Violate("C05/shared-entry-mutated", det("codec", h.Codec, "op", "merge by another log", "what", "link lists with a repeated element"), wt,
								"an entry held by one log changed while ANOTHER log merged it (returned %v): links were %s, are now %s", jerr, nextBefore, fmt.Sprint(hx.Cids(dup.GetNext()), hx.Cids(dup.GetRefs())))
						}
					}
				}
			}
		}
		run.Eval(1)
		run.Count("codec_"+h.Codec, 1)
		run.Count("entries_shadowed", len(shadow))
		if tr.nontrivial() {
			run.NonTrivial(model.ShapeDigest(U) + "/" + h.Codec)
		}
		if i < 2 || run.NumSamples() < 2 {
			run.Sample(histSample(h))
		}
	})
}

func prevSet(o *hx.Obs) model.Set {
	if o == nil {
		return model.Set{}
	}
	return o.Set
}
