package mon

import (
	"fmt"
	"math/rand"
	"strings"
	"time"

	ipfslog "berty.tech/go-ipfs-log"
	"berty.tech/go-ipfs-log/iface"
	"github.com/ipfs/go-cid"

	"verifharness/evid"
	"verifharness/hx"
)

// blockedIn reports whether the dump shows a goroutine inside fn (a library function) in the given wait state.
func blockedIn(dump, fn, state string) bool {
	for _, g := range strings.Split(dump, "\n\n") {
		first := g
		if i := strings.Index(g, "\n"); i > 0 {
			first = g[:i]
		}
		if strings.Contains(first, state) && strings.Contains(g, fn) {
			return true
		}
	}
	return false
}

// c15AfterQueries: (1) a writer and a further iteration after the batch of queries (some of which were rejected)
// must complete; (2) a consumer that reads the output through a SMALL channel and writes to the same log between
// two receives must see the iteration end.
func c15AfterQueries(run *evid.Run, h *hx.History, l *ipfslog.IPFSLog, r int, size int) {
	wit := func() map[string]any { m := histSample(h); m["replica"] = r; return m }
	// (1)
	done := make(chan error, 1)
	go func() {
		_, err := l.Append(hxCtx, []byte(fmt.Sprintf("%d.%d/after-queries-%d", h.Seed, h.Idx, r)), nil)
		if err == nil {
			ch := make(chan iface.IPFSLogEntry, 2*size+32)
			err = l.Iterator(&iface.IteratorOptions{}, ch)
		}
		done <- err
	}()
	select {
	case err := <-done:
		if err != nil {
			run.Violate("C15/unexpected-error", det("phase", "after-queries"), wit(), "append + iteration after the queries failed: %v", err)
		}
	case <-time.After(4 * time.Second):
		d := goroutineDump()
		if blockedIn(d, "(*IPFSLog).Append", "sync.RWMutex.Lock") || blockedIn(d, "(*IPFSLog).Iterator", "sync.RWMutex.RLock") {
			w := wit()
			w["goroutine_dump"] = clipStr(d, 8000)
			run.Violate("C15/log-blocked-after-iteration", det(), w, "after a batch of iterator queries (some rejected for unknown bounds) a writer on the same log blocks forever: a lock was not released")
		} else {
			run.Inconclusive("append after queries did not finish within 4s without a lock-wait state")
		}
		return
	}
	run.Count("writers_after_queries", 1)
	// (1b) an entry that only a CLONE of this log holds (opened from this log's entries and heads, then appended
	// to) is an unknown bound for this log
	{
		lo := &ipfslog.LogOptions{ID: l.GetID(), Entries: l.GetEntries(), Heads: l.Heads().Slice(), SortFn: l.SortFn, IO: l.IO()}
		if clone, err := ipfslog.NewLog(l.Storage, l.Identity, lo); err == nil {
			if ce, err := clone.Append(hxCtx, []byte(fmt.Sprintf("%d.%d/clone-%d", h.Seed, h.Idx, r)), nil); err == nil {
				for _, opt := range []*iface.IteratorOptions{{LTE: []cid.Cid{ce.GetHash()}}, {LT: []cid.Cid{ce.GetHash()}}} {
					ch := make(chan iface.IPFSLogEntry, 2*size+32)
					var ierr error
					if p := safely(func() { ierr = l.Iterator(opt, ch) }); p != nil {
						run.Violate("C15/panic", det("upper", "entry of a clone"), wit(), "Iterator panicked for a bound held only by a clone: %v", p)
					} else if ierr == nil {
						run.Violate("C15/unknown-bound-no-error", det("upper", "entry of a clone"), wit(), "an entry appended to a clone of the log (NewLog from its entries and heads) was accepted as an upper bound by the original, which does not hold it")
					}
					run.Count("bounds_held_only_by_a_clone", 1)
				}
			}
		}
	}
	// (2)
	if size < 3 {
		return
	}
	out := make(chan iface.IPFSLogEntry) // unbuffered: entries are handed over one by one
	finished := make(chan struct{})
	var got int
	go func() {
		defer close(finished)
		first := true
		for range out {
			got++
			if first {
				first = false
				// the consumer reacts to the first entry by writing to the same log
				_, _ = l.Append(hxCtx, []byte(fmt.Sprintf("%d.%d/consumer-%d", h.Seed, h.Idx, r)), nil)
			}
		}
	}()
	itDone := make(chan error, 1)
	go func() { itDone <- l.Iterator(&iface.IteratorOptions{}, out) }()
	select {
	case <-finished:
		<-itDone
		run.Count("streaming_iterations_with_writing_consumer", 1)
	case <-time.After(4 * time.Second):
		d := goroutineDump()
		if blockedIn(d, "(*IPFSLog).Iterator", "chan send") && blockedIn(d, "(*IPFSLog).Append", "sync.RWMutex.Lock") {
			w := wit()
			w["goroutine_dump"] = clipStr(d, 8000)
			run.Violate("C15/never-ends", det("consumer", "writes between receives"), w, "iteration through an unbuffered channel never ends when the consumer appends to the same log after the first entry: the iterator still holds the log's lock while sending")
		} else {
			run.Inconclusive("streaming iteration did not end within 4s without the deadlock state")
		}
	}
}

var _ = hx.Short

// ---------------------------------------------------------------- C15: iteration vs writers (child processes)

func init() { registerCases("C15lock", c15LockCase) }

// c15LockCase: (a) every kind of bounded iteration is parked at each of its hook points while a writer (append,
// merge, identity change) starts on the same log; both must end. (b) a log trimmed by a size-bounded merge is
// iterated with bounds at its edge (its oldest entry names predecessors the log no longer holds): whatever the
// iteration returns, a later writer and a later iteration must end. Runs one scenario at a time in a child
// process, so the deadlock classifier (every library goroutine in a lock wait, twice, no hook event) is exact.
func c15LockCase(run *evid.Run, i int, j *Journal) {
	installHook()
	rng := rand.New(rand.NewSource(run.Seed*6700417 + int64(i)))
	h := hx.Gen(run.Seed, i, hx.GenOpts{MaxSteps: 24, Orders: []string{"hash"}, MaxReplicas: 3, Shapes: []string{"widefork", "diamond", "mixed", "lopsided"}})
	x := hx.NewExec(h)
	for k := range h.Steps {
		x.Do(k)
	}
	l := x.Logs[rng.Intn(len(x.Logs))]
	for _, c := range x.Logs {
		if c.Len() > l.Len() {
			l = c
		}
	}
	if l.Len() < 3 {
		return
	}
	vs := l.Values().Slice()
	old, mid, nw := vs[0].GetHash(), vs[len(vs)/2].GetHash(), vs[len(vs)-1].GetHash()
	two := 2
	kinds := []struct {
		name string
		o    *iface.IteratorOptions
	}{
		{"default", &iface.IteratorOptions{}},
		{"LTE", &iface.IteratorOptions{LTE: []cid.Cid{mid}}},
		{"LTE x2", &iface.IteratorOptions{LTE: []cid.Cid{nw, mid}}},
		{"LT", &iface.IteratorOptions{LT: []cid.Cid{nw}}},
		{"GTE+LTE", &iface.IteratorOptions{GTE: old, LTE: []cid.Cid{nw}}},
		{"GT", &iface.IteratorOptions{GT: old}},
		{"LTE+amount", &iface.IteratorOptions{LTE: []cid.Cid{nw}, Amount: &two}},
	}
	writers := []string{"append", "merge", "set-identity"}
	other := x.W.NewLog(0)
	_, _ = other.Append(x.W.Ctx, []byte(fmt.Sprintf("%d.%d/other", h.Seed, h.Idx)), nil)
	for _, point := range []string{"iterator.locked", "iterator.unlocked"} {
		k := kinds[(i+len(point))%len(kinds)]
		wr := writers[(i/len(kinds)+len(point))%len(writers)]
		label := fmt.Sprintf("iteration %s parked at %s while a writer (%s) starts on the same log of %d entries", k.name, point, wr, l.Len())
		j.Log(map[string]any{"case": i, "scenario": label})
		p := newPlan(uint64(run.Seed)+uint64(i), false, map[*ipfslog.IPFSLog]string{l: "L"})
		p.parkLog, p.parkPoint = l, point
		activePlan.Store(p)
		aDone := make(chan struct{})
		var ierr error
		out := make(chan iface.IPFSLogEntry, 4*l.Len()+64)
		go func() { defer close(aDone); ierr = l.Iterator(k.o, out) }()
		realised := false
		select {
		case <-p.parked:
			realised = true
		case <-aDone:
		case <-time.After(10 * time.Second):
		}
		bDone := make(chan struct{})
		if realised {
			go func() {
				defer close(bDone)
				switch wr {
				case "append":
					_, _ = l.Append(x.W.Ctx, []byte(fmt.Sprintf("%d.%d/w-%s", h.Seed, h.Idx, point)), nil)
				case "merge":
					_, _ = l.Join(other, -1)
				default:
					l.SetIdentity(x.W.Idents[0])
				}
			}()
			select {
			case <-bDone:
			case <-time.After(25 * time.Millisecond): // only decides WHEN the parked iteration resumes, never a verdict
			}
		} else {
			close(bDone)
		}
		close(p.release)
		all := make(chan struct{})
		go func() { <-aDone; <-bDone; close(all) }()
		ok, dead, dump := waitAll(all, p, 60*time.Second)
		activePlan.Store(nil)
		run.Count("iterations_parked_while_a_writer_starts", 1)
		if realised {
			run.Count("parked_"+point, 1)
		}
		if !ok {
			if dead {
				m := histSample(h)
				m["scenario"] = label
				m["blocked_goroutines"] = dump
				run.Violate("C15/never-ends", det("iteration", k.name, "point", point, "writer", wr), m, "an iteration never ends (and blocks the log) when a writer starts while it is between taking the log's lock and emitting: %s", label)
			} else {
				run.Inconclusive("watchdog fired without a deadlock state: " + label)
			}
			return
		}
		if ierr != nil {
			m := histSample(h)
			m["scenario"] = label
			run.Violate("C15/unexpected-error", det("iteration", k.name, "phase", "parked"), m, "iteration with bounds the log holds failed: %v (%s)", ierr, label)
		}
		run.NonTrivial("parked/" + k.name + "/" + point + "/" + wr)
	}
	// (b) bounds at the edge of a trimmed log
	lo := &ipfslog.LogOptions{ID: l.GetID(), Entries: l.GetEntries(), Heads: l.Heads().Slice(), SortFn: l.SortFn, IO: l.IO()}
	cp, err := ipfslog.NewLog(l.Storage, l.Identity, lo)
	if err != nil {
		return
	}
	keep := 1 + rng.Intn(cp.Len()-1)
	if _, err := cp.Join(x.W.NewLog(0), keep); err != nil {
		return
	}
	tv := cp.Values().Slice()
	if len(tv) == 0 {
		return
	}
	edge := tv[0].GetHash()
	label := fmt.Sprintf("log of %d entries trimmed to %d by a size-bounded merge, then iterated with bounds at its oldest entry", l.Len(), keep)
	j.Log(map[string]any{"case": i, "scenario": label})
	var pan any
	okc, dead, dump := guardCall(func() {
		pan = safely(func() {
			for _, o := range []*iface.IteratorOptions{{LT: []cid.Cid{edge}}, {LTE: []cid.Cid{edge}}, {GT: edge}, {GTE: edge}, {LT: []cid.Cid{tv[len(tv)-1].GetHash()}, GTE: edge}} {
				_ = cp.Iterator(o, make(chan iface.IPFSLogEntry, 4*l.Len()+64))
			}
			_, _ = cp.Append(x.W.Ctx, []byte("after-edge-queries"), nil)
			_ = cp.Iterator(&iface.IteratorOptions{}, make(chan iface.IPFSLogEntry, 4*l.Len()+64))
		})
	}, 60*time.Second)
	run.Count("trimmed_logs_iterated_at_their_edge", 1)
	m := histSample(h)
	m["scenario"] = label
	switch {
	case !okc && dead:
		m["blocked_goroutines"] = dump
		run.Violate("C15/log-blocked-after-iteration", det("log", "trimmed by a size-bounded merge"), m, "after iterations with bounds at the oldest entry of a trimmed log a writer on that log blocks forever: %s", label)
	case !okc:
		run.Inconclusive("watchdog fired without a deadlock state: " + label)
	case pan != nil:
		run.Violate("C15/panic", det("log", "trimmed by a size-bounded merge"), m, "iteration at the edge of a trimmed log panicked: %v", pan)
	}
	run.Eval(1)
}
