package mon

import (
	"fmt"
	"strings"
	"time"

	ipfslog "berty.tech/go-ipfs-log"
	"berty.tech/go-ipfs-log/iface"
	"github.com/ipfs/go-cid"

	"verifharness/evid"
	"verifharness/hx"
)

// blockedIn reports whether the dump shows a goroutine inside fn (a library function) in the given wait state.
func blockedIn(dump, fn, state string) bool {
	for _, g := range strings.Split(dump, "\n\n") {
		first := g
		if i := strings.Index(g, "\n"); i > 0 {
			first = g[:i]
		}
		if strings.Contains(first, state) && strings.Contains(g, fn) {
			return true
		}
	}
	return false
}

// c15AfterQueries: (1) a writer and a further iteration after the batch of queries (some of which were rejected)
// must complete; (2) a consumer that reads the output through a SMALL channel and writes to the same log between
// two receives must see the iteration end.
func c15AfterQueries(run *evid.Run, h *hx.History, l *ipfslog.IPFSLog, r int, size int) {
	wit := func() map[string]any { m := histSample(h); m["replica"] = r; return m }
	// (1)
	done := make(chan error, 1)
	go func() {
		_, err := l.Append(hxCtx, []byte(fmt.Sprintf("%d.%d/after-queries-%d", h.Seed, h.Idx, r)), nil)
		if err == nil {
			ch := make(chan iface.IPFSLogEntry, 2*size+32)
			err = l.Iterator(&iface.IteratorOptions{}, ch)
		}
		done <- err
	}()
	select {
	case err := <-done:
		if err != nil {
			run.Violate("C15/unexpected-error", det("phase", "after-queries"), wit(), "append + iteration after the queries failed: %v", err)
		}
	case <-time.After(4 * time.Second):
		d := goroutineDump()
		if blockedIn(d, "(*IPFSLog).Append", "sync.RWMutex.Lock") || blockedIn(d, "(*IPFSLog).Iterator", "sync.RWMutex.RLock") {
			w := wit()
			w["goroutine_dump"] = clipStr(d, 8000)
			run.Violate("C15/log-blocked-after-iteration", det(), w, "after a batch of iterator queries (some rejected for unknown bounds) a writer on the same log blocks forever: a lock was not released")
		} else {
			run.Inconclusive("append after queries did not finish within 4s without a lock-wait state")
		}
		return
	}
	run.Count("writers_after_queries", 1)
	// (1b) an entry that only a CLONE of this log holds (opened from this log's entries and heads, then appended
	// to) is an unknown bound for this log
	{
		lo := &ipfslog.LogOptions{ID: l.GetID(), Entries: l.GetEntries(), Heads: l.Heads().Slice(), SortFn: l.SortFn, IO: l.IO()}
		if clone, err := ipfslog.NewLog(l.Storage, l.Identity, lo); err == nil {
			if ce, err := clone.Append(hxCtx, []byte(fmt.Sprintf("%d.%d/clone-%d", h.Seed, h.Idx, r)), nil); err == nil {
				for _, opt := range []*iface.IteratorOptions{{LTE: []cid.Cid{ce.GetHash()}}, {LT: []cid.Cid{ce.GetHash()}}} {
					ch := make(chan iface.IPFSLogEntry, 2*size+32)
					var ierr error
					if p := safely(func() { ierr = l.Iterator(opt, ch) }); p != nil {
						run.Violate("C15/panic", det("upper", "entry of a clone"), wit(), "Iterator panicked for a bound held only by a clone: %v", p)
					} else if ierr == nil {
						run.Violate("C15/unknown-bound-no-error", det("upper", "entry of a clone"), wit(), "an entry appended to a clone of the log (NewLog from its entries and heads) was accepted as an upper bound by the original, which does not hold it")
					}
					run.Count("bounds_held_only_by_a_clone", 1)
				}
			}
		}
	}
	// (2)
	if size < 3 {
		return
	}
	out := make(chan iface.IPFSLogEntry) // unbuffered: entries are handed over one by one
	finished := make(chan struct{})
	var got int
	go func() {
		defer close(finished)
		first := true
		for range out {
			got++
			if first {
				first = false
				// the consumer reacts to the first entry by writing to the same log
				_, _ = l.Append(hxCtx, []byte(fmt.Sprintf("%d.%d/consumer-%d", h.Seed, h.Idx, r)), nil)
			}
		}
	}()
	itDone := make(chan error, 1)
	go func() { itDone <- l.Iterator(&iface.IteratorOptions{}, out) }()
	select {
	case <-finished:
		<-itDone
		run.Count("streaming_iterations_with_writing_consumer", 1)
	case <-time.After(4 * time.Second):
		d := goroutineDump()
		if blockedIn(d, "(*IPFSLog).Iterator", "chan send") && blockedIn(d, "(*IPFSLog).Append", "sync.RWMutex.Lock") {
			w := wit()
			w["goroutine_dump"] = clipStr(d, 8000)
			run.Violate("C15/never-ends", det("consumer", "writes between receives"), w, "iteration through an unbuffered channel never ends when the consumer appends to the same log after the first entry: the iterator still holds the log's lock while sending")
		} else {
			run.Inconclusive("streaming iteration did not end within 4s without the deadlock state")
		}
	}
}

var _ = hx.Short
