package mon

import (
	"fmt"
	"math/rand"
	"strings"
	"time"

	ipfslog "berty.tech/go-ipfs-log"
	"github.com/ipfs/go-cid"

	"verifharness/evid"
	"verifharness/hx"
	"verifharness/model"
	"verifharness/store"
)

// runCases runs fn for i in [0,total): in-process on the worker pool, or in
// (race-instrumented) child processes.
func runCases(run *evid.Run, key string, total int, children, race bool, opts ChildOpts) {
	fn := caseFns[key]
	if !children {
		parallel(total, func(i int) { fn(run, i, nil) })
		return
	}
	opts.Key = key
	opts.Race = race
	if opts.RaceInScope == nil {
		opts.RaceInScope = raceInLibrary
	}
	if opts.Batches == 0 {
		opts.Batches = 2 * Workers()
	}
	opts.Env = append(opts.Env, fmt.Sprintf("VERIF_CASES=%d", total))
	RunChildren(run, opts)
}

type caseFn func(run *evid.Run, i int, j *Journal)

var caseFns = map[string]caseFn{}

func registerCases(key string, fn caseFn) {
	caseFns[key] = fn
	childFns[key] = func(run *evid.Run, batch, nb int, j *Journal) {
		total := envInt("VERIF_CASES", 0)
		for i := batch; i < total && !evid.IsSaturated(); i += nb {
			fn(run, i, j)
		}
	}
}

var policies = []string{"fifo", "lifo", "random", "heads-last", "oldest-first", "newest-first"}

// gated runs fn while the store releases block requests one at a time following
// the named policy; it returns the realised completion order digest.
func gated(w *hx.World, pol string, rng *rand.Rand, times map[string]int, heads map[string]bool, fn func()) (orderDigest string, nGets int) {
	st := w.Store
	st.ResetEvents()
	var p store.Policy
	var prio func(c cid.Cid) int
	switch pol {
	case "fifo":
		p = store.FIFO
	case "lifo":
		p = store.LIFO
	case "random":
		p = store.Random
	case "heads-last":
		prio = func(c cid.Cid) int {
			if heads[c.String()] {
				return 1 << 30
			}
			return times[c.String()]
		}
	case "oldest-first":
		prio = func(c cid.Cid) int { return times[c.String()] }
	case "newest-first":
		prio = func(c cid.Cid) int { return -times[c.String()] }
	}
	st.Gate(true)
	stop := make(chan struct{})
	done := make(chan []string, 1)
	go func() { done <- st.Drive(p, rng, stop, prio) }()
	fn()
	close(stop)
	<-done
	st.Gate(false)
	var seq []string
	for _, e := range st.Events() {
		if e.Kind == "get-ret" {
			seq = append(seq, e.Cid)
		}
	}
	return model.DigestSeq(seq), len(seq)
}

func timesOf(s model.Set) map[string]int {
	m := map[string]int{}
	for h, e := range s {
		m[h] = e.Time
	}
	return m
}

func setOf(hs []string) map[string]bool {
	m := map[string]bool{}
	for _, h := range hs {
		m[h] = true
	}
	return m
}

// ---------------------------------------------------------------- C09

func CheckC09(run *evid.Run) {
	total := pick(run.Tier, 800, 6000)
	run.Rule = "seeded histories (C01 generator incl. refused operations and forks in every other history, pointer counts up to 64 so that reference links exist; a quarter written and read back with the link-encrypting codec); no-length-limit is expressed by no limit or by the conventional -1; at seeded states (all states in thorough) each replica is rebuilt without limit through all four loaders (manifest, JSON head list, head entries, single head hash when single-headed) against the gated store: concurrency in {1,2,3,8,32} x release policy in {fifo, lifo, random, heads-last, oldest-first, newest-first} plus ungated runs; id, entry set, heads and (when the ordering is total) value sequence must equal the source replica's observation. Evidence counts distinct realised completion orders (digest of the get-return sequence). thorough runs in race-instrumented child processes. Non-trivial = state with >=2 heads or >=8 entries reloaded under a gated policy; distinct = (history shape digest, loader, concurrency, policy)"
	run.Assumptions = []string{"arrival order is varied by parking Get calls and releasing them one at a time; timing only decides which order is realised, never a verdict"}
	runCases(run, "C09", total, true, run.Tier == "thorough", ChildOpts{})
}

func init() { registerCases("C09", c09Case) }

func c09Case(run *evid.Run, i int, j *Journal) {
	rng := rand.New(rand.NewSource(run.Seed*7368787 + int64(i)))
	codec := "cbor"
	if i%4 == 3 {
		codec = "link" // a same-key reader must be able to rebuild the log too
	}
	h := hx.Gen(run.Seed, i, hx.GenOpts{MaxSteps: pick(run.Tier, 32, 60), Orders: []string{"default", "hash", "hash", "revhash"}, Codecs: []string{codec}, Failures: i%2 == 1})
	for k := range h.Steps {
		if h.Steps[k].Op == "append" && rng.Intn(3) == 0 {
			h.Steps[k].PC = []int{8, 16, 64}[rng.Intn(3)]
		}
	}
	x := hx.NewExec(h)
	orders := map[string]bool{}
	nStates := 0
	for k, s := range h.Steps {
		x.Do(k)
		last := k == len(h.Steps)-1
		if run.Tier != "thorough" && !last && rng.Intn(10) != 0 {
			continue
		}
		l := x.Logs[s.R]
		src := hx.Observe(l)
		if len(src.Set) == 0 {
			continue
		}
		nStates++
		tot := totalOrder(h.Order, src.Set)
		for _, loader := range hx.Loaders {
			if loader == "hash" && len(src.Heads) != 1 {
				continue
			}
			conc := []int{1, 2, 3, 8, 32}[rng.Intn(5)]
			pol := policies[rng.Intn(len(policies))]
			if rng.Intn(4) == 0 {
				pol = "ungated"
			}
			where := fmt.Sprintf("state after step %d %s, replica r%d, loader=%s concurrency=%d policy=%s", k, s, s.R, loader, conc, pol)
			j.Log(map[string]any{"case": i, "where": where})
			var loaded *ipfslog.IPFSLog
			var err error
			returned, dump := true, ""
			// "without a length limit" is expressed either by no limit at all or by the conventional -1
			var length *int
			if rng.Intn(2) == 0 {
				minus1 := -1
				length = &minus1
				run.Count("loads_with_explicit_length_-1", 1)
			}
			load := func() {
				returned, dump = callHang(x.W.Store, time.Second, func() {
					lopts := &hx.LoadOpts{Concurrency: conc, Length: length}
					if conc%2 == 0 {
						lopts.TimeoutMs = 600000 // a (very generous) fetch timeout must not change what is loaded
					}
					loaded, err = x.W.Reload(l, loader, x.Writer[s.R], lopts)
				})
			}
			if pol == "ungated" {
				load()
			} else {
				od, _ := gated(x.W, pol, rng, timesOf(src.Set), setOf(src.Heads), load)
				orders[od] = true
				run.Count("gated_loads", 1)
			}
			run.Count("loads_"+loader, 1)
			d := det("loader", loader, "policy", pol, "concurrency", conc, "codec", codec, "explicit_minus_one", length != nil)
			run.Count("loads_codec_"+codec, 1)
			wit := func() map[string]any { m := histSample(h); m["at"] = where; return m }
			if !returned {
				if dump == "" {
					run.Inconclusive("load did not return within the wall-clock cap while requests were outstanding: " + where)
				} else {
					w := wit()
					w["goroutine_dump"] = clipStr(dump, 8000)
					run.Violate("C09/load-hung", d, w, "loader never returned although the store is quiescent (%s)", where)
				}
				continue
			}
			if err != nil || loaded == nil {
				run.Violate("C09/load-error", d, wit(), "loader failed: %v (%s)", err, where)
				continue
			}
			got := hx.Observe(loaded)
			if got.ID != src.ID {
				run.Violate("C09/id", d, wit(), "rebuilt log has id %q, original %q (%s)", got.ID, src.ID, where)
			}
			if !model.SameKeys(got.Set, src.Set) {
				run.Violate("C09/entries", d, wit(), "rebuilt log has %d entries, original %d (%s)", len(got.Set), len(src.Set), where)
				continue
			}
			for hs, e := range src.Set {
				if got.Set[hs].Digest != e.Digest {
					run.Violate("C09/entry-content", d, wit(), "entry %s differs after reload (%s)", hx.Short(hs), where)
					break
				}
			}
			if !model.EqualAsSets(got.Heads, src.Heads) {
				run.Violate("C09/heads", d, wit(), "rebuilt log has heads %v, original %v (%s)", hx.SortedShorts(got.Heads), hx.SortedShorts(src.Heads), where)
			}
			if tot && !model.EqualSeq(got.Values, src.Values) {
				run.Violate("C09/values", d, wit(), "rebuilt log linearises differently (%s)", where)
			}
			if pol != "ungated" && (len(src.Heads) >= 2 || len(src.Set) >= 8) {
				run.NonTrivial(fmt.Sprintf("%s/%s/c%d/%s", model.ShapeDigest(src.Set), loader, conc, pol))
			}
		}
	}
	// a load from head entries with an EXCLUDE list (entries the caller already holds, e.g. a concurrent local
	// branch): the loader returns them along with what it fetched; whatever the log then holds must be in its view
	if h.Replicas > 1 && codec == "cbor" {
		r := rng.Intn(h.Replicas)
		l, other := x.Logs[r], x.Logs[(r+1)%h.Replicas]
		if l.Len() > 0 && other.Len() > 0 {
			src, oth := hx.Observe(l), hx.Observe(other)
			loaded, err := x.W.LoadEntries(l.Heads().Slice(), x.Writer[r], &hx.LoadOpts{Exclude: other.GetEntries().Slice(), NoExplicit: rng.Intn(2) == 0})
			run.Count("loads_from_head_entries_with_an_exclude_list", 1)
			wit := func() map[string]any {
				m := histSample(h)
				m["at"] = fmt.Sprintf("final state, r%d loaded from its head entries with the entries of r%d as Exclude list", r, (r+1)%h.Replicas)
				return m
			}
			if err != nil || loaded == nil {
				run.Violate("C09/load-error", det("loader", "entries+exclude"), wit(), "loader failed: %v", err)
			} else {
				got := hx.Observe(loaded)
				for hs := range src.Set {
					if _, ok := got.Set[hs]; !ok {
						run.Violate("C09/entries", det("loader", "entries+exclude"), wit(), "rebuilt log misses entry %s of the original", hx.Short(hs))
						break
					}
				}
				for hs := range got.Set {
					if _, a := src.Set[hs]; !a {
						if _, b := oth.Set[hs]; !b {
							run.Violate("C09/entries", det("loader", "entries+exclude"), wit(), "rebuilt log holds %s, which neither the original nor the exclude list holds", hx.Short(hs))
							break
						}
					}
				}
				if !model.EqualAsSets(got.Heads, model.Heads(got.Set)) || len(got.Values) != len(got.Set) {
					run.Violate("C09/view-incomplete", det("loader", "entries+exclude"), wit(), "the rebuilt log holds %d entries but its view has %d; heads %v, unreferenced entries %v", len(got.Set), len(got.Values), hx.SortedShorts(got.Heads), hx.Shorts(model.Heads(got.Set)))
				}
			}
		}
	}
	run.Eval(1)
	run.Count("states_reloaded", nStates)
	run.Count("distinct_completion_orders", len(orders))
	if i < 2 || run.NumSamples() < 2 {
		run.Sample(histSample(h))
	}
}

var _ = strings.Join
