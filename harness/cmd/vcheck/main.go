// vcheck: dispatcher for the runtime monitors.
//
//	vcheck <Cxx> <quick|thorough>
package main

import (
	"fmt"
	"os"
	"strconv"

	"verifharness/evid"
	"verifharness/hx"
	"verifharness/mon"
)

type entry struct {
	level string
	fn    mon.Check
}

var checks = map[string]entry{
	"C01": {"exploration", mon.CheckC01},
	"C02": {"exploration", mon.CheckC02},
	"C03": {"exploration", mon.CheckC03},
	"C04": {"exploration", mon.CheckC04},
	"C05": {"exploration", mon.CheckC05},
	"C06": {"exploration", mon.CheckC06},
	"C07": {"exploration", mon.CheckC07},
	"C08": {"exploration", mon.CheckC08},
	"C09": {"exploration", mon.CheckC09},
	"C10": {"exploration", mon.CheckC10},
	"C11": {"fault_enumeration", mon.CheckC11},
	"C12": {"fault_enumeration", mon.CheckC12},
	"C13": {"exploration", mon.CheckC13},
	"C14": {"exploration", mon.CheckC14},
	"C15": {"exploration", mon.CheckC15},
	"C16": {"exploration", mon.CheckC16},
	"C17": {"fault_enumeration", mon.CheckC17},
	"C18": {"exploration", mon.CheckC18},
	"C19": {"exploration", mon.CheckC19},
	"C20": {"exploration", mon.CheckC20},
}

func main() {
	if len(os.Args) < 3 {
		fmt.Fprintln(os.Stderr, "usage: vcheck <Cxx> <quick|thorough>")
		os.Exit(2)
	}
	prop, tier := os.Args[1], os.Args[2]
	seed := int64(1)
	if v := os.Getenv("VERIF_SEED"); v != "" {
		if n, err := strconv.ParseInt(v, 10, 64); err == nil {
			seed = n
		}
	}
	if prop == "-child" {
		mon.ChildMain(os.Args[1:])
		return
	}
	c, ok := checks[prop]
	if !ok {
		fmt.Fprintf(os.Stderr, "unknown property %s\n", prop)
		os.Exit(2)
	}
	// the library prints comparator diagnostics with fmt.Printf; keep stdout for verdict lines only
	if devnull, err := os.OpenFile(os.DevNull, os.O_WRONLY, 0); err == nil {
		evid.Out = os.Stdout
		os.Stdout = devnull
	}
	hx.InitIO()
	run := evid.NewRun(prop, tier, seed, c.level)
	mon.CurrentRun = run
	mon.InstallObserveHook(run)
	mon.MemoryWatchdog(run, 20, func() { os.Exit(run.Finish()) })
	c.fn(run)
	os.Exit(run.Finish())
}
