// Package model is the reference model of a log, written independently of the
// code under test: an entry DAG with its own implementations of heads, causal
// past, linearisation and fetch reachability.
package model

import (
	"bytes"
	"crypto/sha256"
	"encoding/hex"
	"sort"
	"strings"
)

// E is the model's view of an entry.
type E struct {
	Hash    string
	Next    []string
	Refs    []string
	ClockID []byte
	Time    int
	Payload string
	LogID   string
	Digest  string // digest over every field (content identity, used by C05)
}

type Set map[string]*E

func (s Set) Keys() []string {
	out := make([]string, 0, len(s))
	for k := range s {
		out = append(out, k)
	}
	sort.Strings(out)
	return out
}

func (s Set) Copy() Set {
	o := make(Set, len(s))
	for k, v := range s {
		o[k] = v
	}
	return o
}

func Union(a, b Set) Set {
	o := a.Copy()
	for k, v := range b {
		o[k] = v
	}
	return o
}

func SameKeys(a, b Set) bool {
	if len(a) != len(b) {
		return false
	}
	for k := range a {
		if _, ok := b[k]; !ok {
			return false
		}
	}
	return true
}

// Heads: entries of s that no entry of s names in next.
func Heads(s Set) []string {
	ref := map[string]bool{}
	for _, e := range s {
		for _, n := range e.Next {
			ref[n] = true
		}
	}
	var out []string
	for h := range s {
		if !ref[h] {
			out = append(out, h)
		}
	}
	sort.Strings(out)
	return out
}

// Past: reflexive-transitive closure over next inside s, from roots.
func Past(s Set, roots []string) Set {
	out := Set{}
	stack := append([]string(nil), roots...)
	for len(stack) > 0 {
		h := stack[len(stack)-1]
		stack = stack[:len(stack)-1]
		if _, ok := out[h]; ok {
			continue
		}
		e, ok := s[h]
		if !ok {
			continue
		}
		out[h] = e
		stack = append(stack, e.Next...)
	}
	return out
}

// Cmp is a comparator on model entries: <0, 0, >0.
type Cmp func(a, b *E) int

// CmpHash: (time, clock id bytes, hash string) ascending - the hash-tiebreak order.
func CmpHash(a, b *E) int {
	if a.Time != b.Time {
		if a.Time < b.Time {
			return -1
		}
		return 1
	}
	if c := bytes.Compare(a.ClockID, b.ClockID); c != 0 {
		return c
	}
	return strings.Compare(a.Hash, b.Hash)
}

// CmpRevHash: (time, clock id, reverse hash): a harness-supplied total order that respects clock time.
func CmpRevHash(a, b *E) int {
	if a.Time != b.Time {
		if a.Time < b.Time {
			return -1
		}
		return 1
	}
	if c := bytes.Compare(a.ClockID, b.ClockID); c != 0 {
		return c
	}
	return -strings.Compare(a.Hash, b.Hash)
}

// CmpClock: strict part of (time, clock id); 0 when both are equal.
func CmpClock(a, b *E) int {
	if a.Time != b.Time {
		if a.Time < b.Time {
			return -1
		}
		return 1
	}
	return bytes.Compare(a.ClockID, b.ClockID)
}

// Linearise returns the hashes of s sorted ascending by cmp.
func Linearise(s Set, cmp Cmp) []string {
	es := make([]*E, 0, len(s))
	for _, e := range s {
		es = append(es, e)
	}
	sort.Slice(es, func(i, j int) bool { return cmp(es[i], es[j]) < 0 })
	out := make([]string, len(es))
	for i, e := range es {
		out[i] = e.Hash
	}
	return out
}

// DistinctClocks reports whether no two distinct entries share (clockID,time).
func DistinctClocks(s Set) bool {
	seen := map[string]bool{}
	for _, e := range s {
		k := hex.EncodeToString(e.ClockID) + "/" + itoa(e.Time)
		if seen[k] {
			return false
		}
		seen[k] = true
	}
	return true
}

func itoa(i int) string {
	neg := i < 0
	if neg {
		i = -i
	}
	if i == 0 {
		return "0"
	}
	var b []byte
	for i > 0 {
		b = append([]byte{byte('0' + i%10)}, b...)
		i /= 10
	}
	if neg {
		b = append([]byte{'-'}, b...)
	}
	return string(b)
}

// FetchReach: closure from heads over next ∪ refs through entries that are
// retrievable (in s, not bad) and not excluded.
func FetchReach(s Set, heads []string, bad, excl map[string]bool) Set {
	out := Set{}
	seen := map[string]bool{}
	stack := append([]string(nil), heads...)
	for len(stack) > 0 {
		h := stack[len(stack)-1]
		stack = stack[:len(stack)-1]
		if seen[h] {
			continue
		}
		seen[h] = true
		if excl[h] || bad[h] {
			continue
		}
		e, ok := s[h]
		if !ok {
			continue
		}
		out[h] = e
		stack = append(stack, e.Next...)
		stack = append(stack, e.Refs...)
	}
	return out
}

// Closure over next ∪ refs (stored log reachable from start set).
func Closure(s Set, start []string) Set { return FetchReach(s, start, nil, nil) }

// Digest of a sorted key list.
func DigestKeys(keys []string) string {
	h := sha256.New()
	for _, k := range keys {
		h.Write([]byte(k))
		h.Write([]byte{0})
	}
	return hex.EncodeToString(h.Sum(nil))[:16]
}

func DigestSeq(seq []string) string { return DigestKeys(seq) }

func SortedCopy(a []string) []string {
	o := append([]string(nil), a...)
	sort.Strings(o)
	return o
}

func EqualSeq(a, b []string) bool {
	if len(a) != len(b) {
		return false
	}
	for i := range a {
		if a[i] != b[i] {
			return false
		}
	}
	return true
}

func EqualAsSets(a, b []string) bool { return EqualSeq(SortedCopy(a), SortedCopy(b)) }

// ShapeDigest: canonical digest of the DAG shape with hashes replaced by
// positions in the (time, clockIndex, payload) order; used to count distinct histories.
func ShapeDigest(s Set) string {
	ids := map[string]int{}
	lin := Linearise(s, CmpHash)
	for i, h := range lin {
		ids[h] = i
	}
	// map clock ids to small ints by order of first appearance in lin
	cids := map[string]int{}
	h := sha256.New()
	for _, k := range lin {
		e := s[k]
		ck := string(e.ClockID)
		if _, ok := cids[ck]; !ok {
			cids[ck] = len(cids)
		}
		h.Write([]byte(itoa(cids[ck]) + ":" + itoa(e.Time) + ":"))
		var nx []int
		for _, n := range e.Next {
			if j, ok := ids[n]; ok {
				nx = append(nx, j)
			} else {
				nx = append(nx, -1)
			}
		}
		sort.Ints(nx)
		for _, j := range nx {
			h.Write([]byte(itoa(j) + ","))
		}
		h.Write([]byte("|" + itoa(len(e.Refs)) + ";"))
	}
	return hex.EncodeToString(h.Sum(nil))[:16]
}

// Closed reports whether every predecessor named by an entry of the set is in the set.
func Closed(s Set) bool {
	for _, e := range s {
		for _, n := range e.Next {
			if _, ok := s[n]; !ok {
				return false
			}
		}
	}
	return true
}
