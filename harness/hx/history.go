package hx

import (
	"fmt"
	"github.com/ipfs/go-cid"
	"math/rand"
	"runtime"
	"sync"

	ipfslog "berty.tech/go-ipfs-log"
	"berty.tech/go-ipfs-log/entry"
	"berty.tech/go-ipfs-log/iface"
)

type Step struct {
	Op      string `json:"op"` // append | join | joinself | joinempty | joinforeign
	R       int    `json:"r"`
	S       int    `json:"s,omitempty"`
	PC      int    `json:"pc,omitempty"`
	Payload string `json:"p,omitempty"`
	Pin     bool   `json:"pin,omitempty"`
}

func (s Step) String() string {
	switch s.Op {
	case "append":
		return fmt.Sprintf("append(r%d,%q,pc=%d)", s.R, s.Payload, s.PC)
	case "join":
		return fmt.Sprintf("join(r%d<-r%d)", s.R, s.S)
	case "denyappend":
		return fmt.Sprintf("denied-append(r%d)", s.R)
	case "joinrejected":
		return fmt.Sprintf("rejected-join(r%d<-copy-of-r%d+%d valid+1 %s entry)", s.R, s.S, s.PC, s.Payload)
	case "fork":
		return fmt.Sprintf("fork(r%d:=NewLog(entries of r%d, %s))", s.R, s.S, []string{"heads given", "heads + CLOCK object of the source", "heads nil", "heads empty non-nil slice", "heads given, SAME entries map object as the previous fork of this source", "ONE of the source's heads given (the log holds entries that are not behind its heads)"}[s.PC%6])
	case "jointruncated":
		return fmt.Sprintf("join(r%d<-load of the newest %d entries of r%d)", s.R, s.PC, s.S)
	case "joinalien":
		return fmt.Sprintf("cross-key-merges(r%d <-> log written with another link key)", s.R)
	case "joinotherid":
		return fmt.Sprintf("join(r%d<-log with ANOTHER id holding the entries of r%d (which carry this log's id))", s.R, s.S)
	case "joinforeignmid":
		return fmt.Sprintf("join(r%d<-entries of r%d + an entry of ANOTHER log id on top of them + a valid entry on top of that)", s.R, s.S)
	case "joinrelabelled":
		return fmt.Sprintf("join(r%d<-copy of r%d + 2 new valid entries, the older of which CLAIMS the hash of r%d's own entry #%d and is filed under its true hash)", s.R, s.R, s.R, s.S)
	case "joinmislabelled":
		return fmt.Sprintf("join(r%d<-log object carrying this log's id but holding the entries of ANOTHER log)", s.R)
	case "joinforged":
		return fmt.Sprintf("join(r%d<-r%d's log with one interior entry (#%d of those r%d lacks) replaced by a forged same-hash copy)", s.R, s.S, s.PC, s.R)
	case "joinimpostor":
		return fmt.Sprintf("join(r%d<-log whose head is a copy of r%d's own %s entry #%d with %s, same hash)", s.R, s.R, s.Payload, s.S, []string{"another payload", "no links", "another payload and no links"}[s.PC%3])
	case "burst":
		return fmt.Sprintf("concurrent-burst(r%d: %d appends || merges of every other replica || reader)", s.R, s.PC)
	case "setident":
		return fmt.Sprintf("setident(r%d,w%d)", s.R, s.S)
	case "reload":
		return fmt.Sprintf("reload(r%d,%s)", s.R, s.Payload)
	}
	return fmt.Sprintf("%s(r%d)", s.Op, s.R)
}

// ExpectsError: operations that the library refuses (and that must leave the log as it was). "joinimpostor"
// may be refused or succeed; see MustNotChange.
func (s Step) ExpectsError() bool {
	return s.Op == "denyappend" || s.Op == "joinrejected" || s.Op == "joinalien" || s.Op == "joinimpostor" || s.Op == "joinmislabelled" || s.Op == "joinrelabelled" || s.Op == "joinotherid" || s.Op == "joinforged"
}

// MustNotChange: operations after which the replica must be as before whether or not an error is returned.
func (s Step) MustNotChange() bool {
	return s.Op == "joinimpostor" || s.Op == "joinmislabelled" || s.Op == "joinotherid" || s.Op == "joinself" || s.Op == "joinempty" || s.Op == "joinforeign"
}

type History struct {
	Seed          int64  `json:"seed"`
	Idx           int    `json:"idx"`
	Replicas      int    `json:"replicas"`
	Writers       int    `json:"writers"`
	ReplicaWriter []int  `json:"replica_writer"`
	Order         string `json:"order"`
	Codec         string `json:"codec"`
	Shape         string `json:"shape"`
	Failures      bool   `json:"failures,omitempty"`      // replicas carry a payload-prefix deny policy; history has refused operations
	HugeClocks    bool   `json:"huge_clocks,omitempty"`   // replicas start with a clock time of 2^60 (LogOptions.Clock)
	ReuseOptions  bool   `json:"reuse_options,omitempty"` // loaders are called with one reused LogOptions / FetchOptions value
	KeyWipeAt     int    `json:"key_wipe_at,omitempty"`   // link codecs: the codec is built from a caller buffer that the caller wipes before this step
	Steps         []Step `json:"steps"`
}

var Shapes = []string{"mixed", "widefork", "diamond", "lopsided", "ring", "repeat", "twins", "overlap", "manyheads"}

var pcs = []int{1, 1, 1, 2, 4, 8, 16, 32, 64}

type GenOpts struct {
	Truncated   bool // also merge from length-limited loads of other replicas (C05 only: monotonicity oracles)
	Bursts      bool // also generate concurrent bursts on one replica (appends || merges || reads)
	Failures    bool // also generate refused operations (denied appends, rejected merges) and forks
	Extra       bool // also generate setident / reload steps (C04)
	SubsetForks bool // with Failures: forks opened with only ONE of the source's heads (C05: such a log holds entries outside the ancestry of its heads; nothing may vanish from it)
	BigFanout   bool // a third of the "manyheads" histories have 66-73 one-entry replicas merged into one (more than 64 heads at once)
	Huge        bool // a third of the histories have replicas whose clocks start at 2^60, whether or not there are refused operations
	HugeOften   bool // with Failures: half of the histories (not an eighth) have replicas whose clocks start at 2^60
	Hostile     bool // with Failures: also merges of logs that hold a validly signed entry of ANOTHER log id in the middle of their history (C02, C03; the loaders do not filter by log id, so monitors that rebuild logs from storage do not use it)
	MaxSteps    int
	Orders      []string
	Codecs      []string
	Shapes      []string
	MaxReplicas int
}

// Gen builds the idx-th history of a seed. Everything is a function of (seed, idx, opts).
func Gen(seed int64, idx int, o GenOpts) *History {
	rng := rand.New(rand.NewSource(seed*1000003 + int64(idx)*7919 + 17))
	if o.MaxSteps == 0 {
		o.MaxSteps = 40
	}
	if len(o.Orders) == 0 {
		o.Orders = []string{"default", "hash"}
	}
	if len(o.Codecs) == 0 {
		o.Codecs = []string{"cbor"}
	}
	if len(o.Shapes) == 0 {
		o.Shapes = Shapes
	}
	if o.MaxReplicas == 0 {
		o.MaxReplicas = 6
	}
	h := &History{Seed: seed, Idx: idx}
	h.Replicas = 2 + rng.Intn(o.MaxReplicas-1)
	h.Failures = o.Failures
	h.HugeClocks = o.Failures && idx%8 == 5
	if o.Huge && (idx/len(o.Shapes)+idx)%3 == 1 {
		h.HugeClocks = true
	}
	if o.Failures && o.HugeOften {
		h.HugeClocks = idx%2 == 0
	}
	h.ReuseOptions = idx%4 >= 2
	h.Order = o.Orders[rng.Intn(len(o.Orders))]
	h.Codec = o.Codecs[rng.Intn(len(o.Codecs))]
	h.Shape = o.Shapes[idx%len(o.Shapes)]
	// writers: every third history shares writers between replicas
	if idx%3 == 0 || h.Shape == "twins" {
		h.Writers = 1 + rng.Intn(minI(h.Replicas-1, 3))
	} else {
		h.Writers = h.Replicas
		if h.Writers > 4 {
			h.Writers = 4
		}
	}
	for r := 0; r < h.Replicas; r++ {
		h.ReplicaWriter = append(h.ReplicaWriter, r%h.Writers)
	}
	n := 8 + rng.Intn(o.MaxSteps-7)
	k := 0
	pay := func() string { k++; return fmt.Sprintf("%d.%d/%d", seed, idx, k) }
	app := func(r int) Step {
		s := Step{Op: "append", R: r, PC: pcs[rng.Intn(len(pcs))], Payload: pay()}
		if o.Failures && rng.Intn(30) == 0 {
			s.Payload = "" // an empty payload is a legal payload
		}
		return s
	}
	join := func(r, s int) Step {
		if r == s {
			return Step{Op: "joinself", R: r}
		}
		return Step{Op: "join", R: r, S: s}
	}
	R := h.Replicas
	other := func(r int) int {
		s := rng.Intn(R - 1)
		if s >= r {
			s++
		}
		return s
	}
	add := func(s Step) {
		if len(h.Steps) < n {
			h.Steps = append(h.Steps, s)
		}
		if o.Bursts && len(h.Steps) < n && s.Op == "append" && rng.Intn(6) == 0 {
			h.Steps = append(h.Steps, Step{Op: "burst", R: s.R, PC: 2 + rng.Intn(4), Payload: pay()})
		}
		if o.Truncated && len(h.Steps) < n && s.Op == "append" && rng.Intn(6) == 0 && h.Codec != "pb" {
			src := rng.Intn(h.Replicas)
			if src != s.R {
				h.Steps = append(h.Steps, Step{Op: "jointruncated", R: s.R, S: src, PC: 1 + rng.Intn(3)})
			}
		}
		if o.Failures && (h.Codec == "link" || h.Codec == "link2") && len(h.Steps) < n && rng.Intn(9) == 0 {
			h.Steps = append(h.Steps, Step{Op: "joinalien", R: s.R})
		}
		if o.Failures && len(h.Steps) < n && rng.Intn(7) == 0 {
			// a refused operation or a fork, followed by ordinary traffic
			switch rng.Intn(10) {
			case 9:
				// e.g. NewFromEntryHash(head of this log, LogOptions{ID: "something else"}): merging with a log of a
				// different id changes nothing, whatever it holds
				h.Steps = append(h.Steps, Step{Op: "joinotherid", R: s.R, S: (s.R + 1 + rng.Intn(h.Replicas-1)) % h.Replicas})
			case 8:
				if h.Codec != "pb" && o.Hostile {
					h.Steps = append(h.Steps, Step{Op: "joinforeignmid", R: s.R, S: rng.Intn(h.Replicas)})
				}
			case 7:
				// a validly signed new entry whose hash FIELD names an entry this replica holds: it may be merged or
				// refused, but it must not take the place of the held entry
				h.Steps = append(h.Steps, Step{Op: "joinrelabelled", R: s.R, S: rng.Intn(1000)})
			case 6:
				// e.g. NewFromEntryHash(head of another log, LogOptions{ID: this log's id})
				h.Steps = append(h.Steps, Step{Op: "joinmislabelled", R: s.R})
			case 5:
				// a log offering, as its head, a same-hash object that differs from what this replica holds
				imp := Step{Op: "joinimpostor", R: s.R, S: rng.Intn(1000), PC: rng.Intn(3), Payload: []string{"head", "head", "interior"}[rng.Intn(3)]}
				if imp.S%4 == 3 && h.Replicas > 1 {
					// ... or a FORGED copy (same hash, other payload, so the signature does not fit) of an entry this replica
					// does not hold yet, in the middle of what another replica could offer: refused - and the genuine
					// history, merged right afterwards, must arrive complete
					src := (s.R + 1 + (imp.S/4)%(h.Replicas-1)) % h.Replicas
					h.Steps = append(h.Steps, Step{Op: "joinforged", R: s.R, S: src, PC: imp.S / 8}, Step{Op: "join", R: s.R, S: src})
				} else {
					h.Steps = append(h.Steps, imp)
				}
			case 0:
				h.Steps = append(h.Steps, Step{Op: "denyappend", R: s.R, Payload: pay()})
			case 1, 2:
				src := s.R
				if rng.Intn(2) == 0 {
					src = rng.Intn(h.Replicas)
				}
				h.Steps = append(h.Steps, Step{Op: "joinrejected", R: s.R, S: src, PC: rng.Intn(3), Payload: []string{"denied", "mis-signed"}[rng.Intn(2)]})
			case 3:
				if h.Replicas > 2 {
					tgt := (s.R + 1 + rng.Intn(h.Replicas-1)) % h.Replicas
					v := rng.Intn(4)
					if o.SubsetForks && rng.Intn(3) == 0 {
						v = 5
					}
					h.Steps = append(h.Steps, Step{Op: "fork", R: tgt, S: s.R, PC: v})
					if v == 5 {
						// a merge that brings nothing must leave such a log as it is
						h.Steps = append(h.Steps, Step{Op: "joinempty", R: tgt})
					}
					if h.Replicas > 3 && rng.Intn(2) == 0 {
						// a second replica opened from the very same entries map object
						t2 := (tgt + 1) % h.Replicas
						if t2 == s.R {
							t2 = (t2 + 1) % h.Replicas
						}
						h.Steps = append(h.Steps, Step{Op: "fork", R: t2, S: s.R, PC: 4})
					}
				}
			case 4:
				h.Steps = append(h.Steps, Step{Op: "joinempty", R: s.R})
			}
		}
		if o.Extra && len(h.Steps) < n && s.Op == "join" && rng.Intn(4) == 0 {
			// extra steps that must not disturb the clock: change writer / rebuild from storage
			if rng.Intn(2) == 0 || h.Codec == "pb" { // the legacy codec cannot read back what it writes: no rebuilds there
				h.Steps = append(h.Steps, Step{Op: "setident", R: s.R, S: rng.Intn(h.Writers)})
			} else {
				h.Steps = append(h.Steps, Step{Op: "reload", R: s.R, Payload: []string{"manifest", "json", "entries", "hash"}[rng.Intn(4)]})
				if rng.Intn(2) == 0 { // a reopened log whose writer is changed before it is appended to
					h.Steps = append(h.Steps, Step{Op: "setident", R: s.R, S: rng.Intn(h.Writers)})
				}
			}
			if len(h.Steps) < n {
				h.Steps = append(h.Steps, Step{Op: "append", R: s.R, PC: pcs[rng.Intn(len(pcs))], Payload: pay()})
			}
		}
	}
	noop := func(r int) Step {
		return Step{Op: []string{"joinself", "joinempty", "joinforeign"}[rng.Intn(3)], R: r}
	}
	if o.Truncated && idx%2 == 0 {
		h.Shape = "lagging"
	}
	if (h.Codec == "link" || h.Codec == "link2") && rng.Intn(2) == 0 {
		h.KeyWipeAt = 2 + n/3
	}
	switch h.Shape {
	case "lagging":
		// a replica that is 1,2,4,8.. entries behind a writer using skip references merges a length-limited
		// load of the writer's newest entries (the chain in between is absent)
		wr := 0
		for c := 4 + rng.Intn(6); c > 0; c-- {
			add(Step{Op: "append", R: wr, PC: 16, Payload: pay()})
		}
		for len(h.Steps) < n {
			r := 1 + rng.Intn(R-1)
			add(join(r, wr))
			if rng.Intn(3) == 0 {
				add(app(r))
			}
			for c := []int{1, 2, 3, 4, 5, 8, 9}[rng.Intn(7)]; c > 0; c-- {
				add(Step{Op: "append", R: wr, PC: 16, Payload: pay()})
			}
			add(Step{Op: "jointruncated", R: r, S: wr, PC: 1 + rng.Intn(2)})
			if rng.Intn(2) == 0 {
				add(app(r))
			}
		}
	case "manyheads":
		// one long chain plus many short logs of other replicas: more heads than the pointer count
		extra := 7 + rng.Intn(10)
		if o.BigFanout && idx%3 == 2 {
			extra = 66 + rng.Intn(8) // more concurrent heads than any small constant someone might have in mind (64 + a few)
		}
		h.Replicas = 1 + extra
		R = h.Replicas
		h.ReplicaWriter = nil
		for r := 0; r < R; r++ {
			h.ReplicaWriter = append(h.ReplicaWriter, r%h.Writers)
		}
		n = 30 + extra*3
		if extra > 60 {
			n = 40 + extra*5 // room for at least one round in which every replica appends and all are merged
		}
		for c := 8 + rng.Intn(12); c > 0; c-- {
			add(app(0))
		}
		for r := 1; r < R; r++ {
			add(app(r))
			if rng.Intn(4) == 0 {
				add(app(r))
			}
		}
		for r := 1; r < R; r++ {
			add(join(0, r))
			if rng.Intn(3) == 0 {
				add(Step{Op: "append", R: 0, PC: []int{1, 2, 4}[rng.Intn(3)], Payload: pay()})
				add(app(r))
			}
		}
		for c := 0; c < 3; c++ {
			for r := 1; r < R; r++ {
				if rng.Intn(2) == 0 || extra > 60 {
					add(app(r))
				}
			}
			for r := 1; r < R; r++ {
				add(join(0, r))
			}
			add(Step{Op: "append", R: 0, PC: []int{1, 2, 4}[rng.Intn(3)], Payload: pay()})
		}
	case "widefork":
		for len(h.Steps) < n {
			for r := 0; r < R; r++ {
				for c := 1 + rng.Intn(3); c > 0; c-- {
					add(app(r))
				}
			}
			for c := 1 + rng.Intn(2*R); c > 0; c-- {
				r := rng.Intn(R)
				add(join(r, other(r)))
			}
		}
	case "diamond":
		for len(h.Steps) < n {
			a := rng.Intn(R)
			b := other(a)
			add(app(a))
			add(app(b))
			if rng.Intn(3) == 0 {
				add(app(a))
			}
			add(join(a, b))
			add(join(b, a))
			if rng.Intn(2) == 0 {
				add(app(a))
			}
		}
	case "lopsided":
		big := rng.Intn(R)
		for c := 12 + rng.Intn(10); c > 0; c-- {
			add(app(big))
		}
		for len(h.Steps) < n {
			r := rng.Intn(R)
			switch rng.Intn(4) {
			case 0:
				add(join(r, big))
				add(app(r))
			case 1:
				add(app(r))
			case 2:
				add(join(big, r))
				add(app(big))
			default:
				add(join(r, other(r)))
			}
		}
	case "ring":
		for len(h.Steps) < n {
			r := rng.Intn(R)
			if rng.Intn(2) == 0 {
				add(app(r))
			} else {
				add(join(r, (r+1)%R))
			}
		}
	case "repeat":
		for len(h.Steps) < n {
			r := rng.Intn(R)
			switch rng.Intn(3) {
			case 0:
				add(app(r))
			default:
				s := other(r)
				for c := 1 + rng.Intn(3); c > 0; c-- {
					add(join(r, s))
				}
				if rng.Intn(4) == 0 {
					add(noop(r))
				}
			}
		}
	case "twins":
		// two replicas sharing an identity reach the same state and append the same payload
		a, b := 0, 0
		for r := 1; r < R; r++ {
			if h.ReplicaWriter[r] == h.ReplicaWriter[0] {
				b = r
				break
			}
		}
		if b == 0 {
			h.ReplicaWriter[1] = h.ReplicaWriter[0]
			b = 1
		}
		for len(h.Steps) < n {
			switch rng.Intn(5) {
			case 0, 1:
				// synchronise a and b then twin-append
				add(join(a, b))
				add(join(b, a))
				p := pay()
				pc := pcs[rng.Intn(len(pcs))]
				add(Step{Op: "append", R: a, PC: pc, Payload: p})
				add(Step{Op: "append", R: b, PC: pc, Payload: p})
			case 2:
				r := rng.Intn(R)
				add(app(r))
			default:
				r := rng.Intn(R)
				add(join(r, other(r)))
			}
		}
	case "overlap":
		// partially overlapping forks, merges into ancestors/descendants, three-way merges
		for len(h.Steps) < n {
			a := rng.Intn(R)
			b := other(a)
			c := other(a)
			add(app(a))
			add(join(b, a)) // b descends from a's state
			add(app(b))
			add(app(a))
			add(join(c, b)) // c sees a's old head as interior
			add(app(c))
			add(join(a, c)) // three-way: a's older head is interior on c's side
			if rng.Intn(2) == 0 {
				add(join(b, a))
				add(join(a, b)) // already merged
			}
		}
	default: // mixed
		for len(h.Steps) < n {
			r := rng.Intn(R)
			x := rng.Intn(100)
			switch {
			case x < 50:
				add(app(r))
			case x < 90:
				add(join(r, other(r)))
			default:
				add(noop(r))
			}
		}
	}
	return h
}

func minI(a, b int) int {
	if a < b {
		return a
	}
	return b
}

// Exec executes a history on fresh replicas.
// OnStepProblem, when set, is told about a step that ended in a way no correct library allows (mon reports it for
// the properties that speak about the content of what a log holds).
var OnStepProblem func(step, problem string)

type Exec struct {
	W        *World
	H        *History
	Writer   []int // current writer of each replica
	Logs     []*ipfslog.IPFSLog
	Empty    *ipfslog.IPFSLog
	Foreign  *ipfslog.IPFSLog
	alien    *ipfslog.IPFSLog // same id, written with the OTHER link key
	wipe     func()
	forkMaps map[int]forkMap
}

type forkMap struct {
	m   iface.IPFSLogOrderedEntries
	len int
}

func NewExec(h *History) *Exec {
	w := NewWorld(h.Seed, h.Writers, fmt.Sprintf("log-%d-%d", h.Seed, h.Idx), h.Order, h.Codec)
	w.DenyPrefix = h.Failures
	w.ReuseOptions = h.ReuseOptions
	x := &Exec{W: w, H: h, forkMaps: map[int]forkMap{}}
	if h.KeyWipeAt > 0 && (h.Codec == "link" || h.Codec == "link2") {
		io, wipe := LateWipeLinkIO(map[string]int{"link": 1, "link2": 2}[h.Codec])
		w.SetIO(io)
		x.wipe = wipe
	}
	for r := 0; r < h.Replicas; r++ {
		if h.HugeClocks && r%2 == 0 { // every other replica: merges then produce logs with a huge GAP in the clock values
			lo := w.LogOpts(w.LogID)
			lo.Clock = entry.NewLamportClock(w.Idents[h.ReplicaWriter[r]].PublicKey, 1<<60)
			l, err := ipfslog.NewLog(w.Store.API(), w.Idents[h.ReplicaWriter[r]], lo)
			if err != nil {
				panic(err)
			}
			x.Logs = append(x.Logs, l)
			x.Writer = append(x.Writer, h.ReplicaWriter[r])
			continue
		}
		x.Logs = append(x.Logs, w.NewLog(h.ReplicaWriter[r]))
		x.Writer = append(x.Writer, h.ReplicaWriter[r])
	}
	x.Empty = w.NewLog(0)
	x.Foreign = w.NewLogID(0, w.LogID+"-foreign")
	for i := 0; i < 3; i++ {
		if _, err := x.Foreign.Append(w.Ctx, []byte(fmt.Sprintf("foreign-%d", i)), nil); err != nil {
			panic(err)
		}
	}
	return x
}

type StepResult struct {
	Entry iface.IPFSLogEntry
	Err   error
	// burst: entries returned by the concurrent appends and every hash a concurrent reader saw in Values()
	Burst     []iface.IPFSLogEntry
	BurstSeen map[string]bool
	// snapshots taken by the concurrent reader: heads and values of each ToSnapshot() call
	BurstSnaps [][2][]string
}

// burst: on replica R, one goroutine appends n entries, another merges every other replica (none of which
// is being mutated meanwhile) in a loop, a third keeps reading Values(). Everything is joined before it returns.
func (x *Exec) burst(s Step) StepResult {
	l := x.Logs[s.R]
	var res StepResult
	res.BurstSeen = map[string]bool{}
	var wg sync.WaitGroup
	stop := make(chan struct{})
	var emu sync.Mutex
	for m := 0; m < 2; m++ { // two mergers, each taking every other replica: merges INTO one log also overlap each other
		m := m
		wg.Add(1)
		go func() {
			defer wg.Done()
			for round := 0; round < 1; round++ { // ONE pass: a repeated merge would heal (hide) a lost update of the heads
				any := false
				for r, o := range x.Logs {
					if r == s.R || r%2 != m {
						continue
					}
					any = true
					select {
					case <-stop:
						return
					default:
					}
					if _, err := l.Join(o, -1); err != nil {
						emu.Lock()
						if res.Err == nil {
							res.Err = err
						}
						emu.Unlock()
					}
					runtime.Gosched()
				}
				if !any {
					return
				}
			}
		}()
	}
	var rmu sync.Mutex
	wg.Add(1)
	go func() { // reader
		defer wg.Done()
		for {
			select {
			case <-stop:
				return
			default:
			}
			for _, e := range l.Values().Slice() {
				if e != nil {
					rmu.Lock()
					res.BurstSeen[e.GetHash().String()] = true
					rmu.Unlock()
				}
			}
			_ = l.Heads() // (a reader that also looks at the heads while the log is written to)
			sn := l.ToSnapshot()
			rmu.Lock()
			if len(res.BurstSnaps) < 200 {
				res.BurstSnaps = append(res.BurstSnaps, [2][]string{Cids(sn.Heads), Hashes(sn.Values)})
			}
			rmu.Unlock()
			runtime.Gosched()
		}
	}()
	for k := 0; k < s.PC; k++ {
		e, err := l.Append(x.W.Ctx, []byte(fmt.Sprintf("%s-b%d", s.Payload, k)), nil)
		if err != nil {
			res.Err = err
			break
		}
		res.Burst = append(res.Burst, e)
		runtime.Gosched()
	}
	close(stop)
	wg.Wait()
	return res
}

func (x *Exec) Do(i int) StepResult {
	s := x.H.Steps[i]
	l := x.Logs[s.R]
	if x.wipe != nil && i >= x.H.KeyWipeAt {
		x.wipe() // the application wipes the buffer it built the link key from
		x.wipe = nil
	}
	switch s.Op {
	case "append":
		e, err := l.Append(x.W.Ctx, []byte(s.Payload), &iface.AppendOptions{PointerCount: s.PC, Pin: s.Pin})
		return StepResult{Entry: e, Err: err}
	case "join":
		_, err := l.Join(x.Logs[s.S], -1)
		return StepResult{Err: err}
	case "denyappend":
		e, err := l.Append(x.W.Ctx, []byte(DenyPrefix+s.Payload), nil)
		return StepResult{Entry: e, Err: err}
	case "joinrejected":
		// a copy of S's state (public constructor), 0-2 acceptable entries and one unacceptable entry on top
		src := x.Logs[s.S]
		lo := x.W.LogOpts(x.W.LogID)
		lo.AccessController = nil
		lo.Entries = src.GetEntries()
		lo.Heads = src.Heads().Slice()
		tmp, err := ipfslog.NewLog(x.W.Store.API(), x.W.Idents[x.Writer[s.S]], lo)
		if err != nil {
			panic(err)
		}
		// (building the source can itself fail when the monitor injects write failures: then nothing is merged)
		for k := 0; k < s.PC; k++ {
			if _, err := tmp.Append(x.W.Ctx, []byte(fmt.Sprintf("%d.%d/rj%d.%d", x.H.Seed, x.H.Idx, i, k)), nil); err != nil {
				return StepResult{Err: err}
			}
		}
		if s.Payload == "denied" {
			if _, err := tmp.Append(x.W.Ctx, []byte(fmt.Sprintf("%s%d.%d/rj%d", DenyPrefix, x.H.Seed, x.H.Idx, i)), nil); err != nil {
				return StepResult{Err: err}
			}
		} else {
			e, err := tmp.Append(x.W.Ctx, []byte(fmt.Sprintf("%d.%d/rjbad%d", x.H.Seed, x.H.Idx, i)), nil)
			if err != nil {
				return StepResult{Err: err}
			}
			sig := e.GetSig()
			bad := append([]byte(nil), sig...)
			bad[len(bad)/2] ^= 0x10
			ce := e.Copy()
			ce.SetSig(bad)
			ents := tmp.GetEntries()
			ents.Set(e.GetHash().String(), ce)
			lo2 := x.W.LogOpts(x.W.LogID)
			lo2.AccessController = nil
			lo2.Entries = ents
			lo2.Heads = []iface.IPFSLogEntry{ce}
			if tmp, err = ipfslog.NewLog(x.W.Store.API(), x.W.Idents[x.Writer[s.S]], lo2); err != nil {
				panic(err)
			}
		}
		_, jerr := l.Join(tmp, -1)
		return StepResult{Err: jerr}
	case "joinotherid":
		src := x.Logs[s.S]
		lo := x.W.LogOpts(x.W.LogID + "-another-id")
		lo.AccessController = nil
		lo.Entries = src.GetEntries()
		lo.Heads = src.Heads().Slice()
		tmp, err := ipfslog.NewLog(x.W.Store.API(), x.W.Idents[x.Writer[s.S]], lo)
		if err != nil {
			panic(err)
		}
		_, jerr := l.Join(tmp, -1)
		return StepResult{Err: jerr}
	case "joinforeignmid":
		src := x.Logs[s.S]
		heads := src.Heads().Slice()
		if len(heads) == 0 {
			return StepResult{}
		}
		maxT := 0
		var next []cid.Cid
		for _, hd := range heads {
			next = append(next, hd.GetHash())
			if t := hd.GetClock().GetTime(); t > maxT {
				maxT = t
			}
		}
		id := x.W.Idents[x.Writer[s.S]]
		f, err := entry.CreateEntryWithIO(x.W.Ctx, x.W.Store.API(), id, &entry.Entry{LogID: x.W.LogID + "-foreign", Payload: []byte(fmt.Sprintf("%d.%d/fm%d.f", x.H.Seed, x.H.Idx, i)),
			Next: next, Clock: entry.NewLamportClock(id.PublicKey, maxT+1)}, nil, x.W.IOv())
		if err != nil {
			return StepResult{Err: err}
		}
		v, err := entry.CreateEntryWithIO(x.W.Ctx, x.W.Store.API(), id, &entry.Entry{LogID: x.W.LogID, Payload: []byte(fmt.Sprintf("%d.%d/fm%d.v", x.H.Seed, x.H.Idx, i)),
			Next: []cid.Cid{f.GetHash()}, Clock: entry.NewLamportClock(id.PublicKey, maxT+2)}, nil, x.W.IOv())
		if err != nil {
			return StepResult{Err: err}
		}
		ents := src.GetEntries()
		ents.Set(f.GetHash().String(), f)
		ents.Set(v.GetHash().String(), v)
		lo := x.W.LogOpts(x.W.LogID)
		lo.AccessController = nil
		lo.Entries = ents
		lo.Heads = []iface.IPFSLogEntry{v}
		tmp, err := ipfslog.NewLog(x.W.Store.API(), id, lo)
		if err != nil {
			panic(err)
		}
		_, jerr := l.Join(tmp, -1)
		return StepResult{Err: jerr, Entry: v}
	case "joinrelabelled":
		pool := l.Values().Slice()
		if len(pool) == 0 {
			return StepResult{}
		}
		victim := pool[s.S%len(pool)]
		lo := x.W.LogOpts(x.W.LogID)
		lo.AccessController = nil
		lo.Entries = l.GetEntries()
		lo.Heads = l.Heads().Slice()
		tmp, err := ipfslog.NewLog(x.W.Store.API(), x.W.Idents[x.Writer[s.R]], lo)
		if err != nil {
			panic(err)
		}
		n1, err := tmp.Append(x.W.Ctx, []byte(fmt.Sprintf("%d.%d/rl%d.1", x.H.Seed, x.H.Idx, i)), nil)
		if err != nil {
			return StepResult{Err: err}
		}
		n2, err := tmp.Append(x.W.Ctx, []byte(fmt.Sprintf("%d.%d/rl%d.2", x.H.Seed, x.H.Idx, i)), nil)
		if err != nil {
			return StepResult{Err: err}
		}
		ents := tmp.GetEntries()
		fake := n1.Copy()
		fake.SetHash(victim.GetHash())
		ents.Set(n1.GetHash().String(), fake)
		lo2 := x.W.LogOpts(x.W.LogID)
		lo2.AccessController = nil
		lo2.Entries = ents
		lo2.Heads = []iface.IPFSLogEntry{n2}
		src, err := ipfslog.NewLog(x.W.Store.API(), x.W.Idents[x.Writer[s.R]], lo2)
		if err != nil {
			panic(err)
		}
		_, jerr := l.Join(src, -1)
		return StepResult{Err: jerr}
	case "joinmislabelled":
		lo := x.W.LogOpts(x.W.LogID)
		lo.AccessController = nil
		lo.Entries = x.Foreign.GetEntries()
		lo.Heads = x.Foreign.Heads().Slice()
		tmp, err := ipfslog.NewLog(x.W.Store.API(), x.W.Idents[x.Writer[s.R]], lo)
		if err != nil {
			panic(err)
		}
		_, jerr := l.Join(tmp, -1)
		return StepResult{Err: jerr}
	case "joinimpostor":
		// Whether this merge is refused or succeeds, it offers nothing new: the replica must stay as it is and
		// keep handing out the entries it verified, not the offered look-alikes.
		var pool []iface.IPFSLogEntry
		if s.Payload == "interior" {
			pool = l.Values().Slice()
		} else {
			pool = l.Heads().Slice()
		}
		if len(pool) == 0 {
			return StepResult{}
		}
		victim := pool[s.S%len(pool)]
		if victim == nil {
			return StepResult{}
		}
		ce := victim.Copy()
		if s.PC%3 != 1 {
			ce.SetPayload([]byte(string(victim.GetPayload()) + "-forged"))
		}
		if s.PC%3 != 0 {
			ce.SetNext(nil)
			ce.SetRefs(nil)
		}
		ents := l.GetEntries()
		ents.Set(victim.GetHash().String(), ce)
		lo := x.W.LogOpts(x.W.LogID)
		lo.AccessController = nil
		lo.Entries = ents
		lo.Heads = []iface.IPFSLogEntry{ce}
		tmp, err := ipfslog.NewLog(x.W.Store.API(), x.W.Idents[x.Writer[s.R]], lo)
		if err != nil {
			panic(err)
		}
		_, jerr := l.Join(tmp, -1)
		return StepResult{Err: jerr}
	case "joinforged":
		src := x.Logs[s.S]
		var lacking []iface.IPFSLogEntry
		for _, e := range src.Values().Slice() {
			if e != nil && !l.Has(e.GetHash()) {
				lacking = append(lacking, e)
			}
		}
		if len(lacking) < 2 {
			return StepResult{}
		}
		// not the oldest of what is new; every other time the parent the replica's own oldest entry is waiting for
		victim := lacking[1+s.PC%(len(lacking)-1)]
		ce := victim.Copy()
		ce.SetPayload([]byte(string(victim.GetPayload()) + "-forged"))
		ents := src.GetEntries()
		ents.Set(victim.GetHash().String(), ce)
		var heads []iface.IPFSLogEntry
		for _, hd := range src.Heads().Slice() {
			if hd.GetHash().Equals(victim.GetHash()) {
				heads = append(heads, ce)
			} else {
				heads = append(heads, hd)
			}
		}
		lo := x.W.LogOpts(x.W.LogID)
		lo.AccessController = nil
		lo.Entries = ents
		lo.Heads = heads
		tmp, err := ipfslog.NewLog(x.W.Store.API(), x.W.Idents[x.Writer[s.R]], lo)
		if err != nil {
			panic(err)
		}
		_, jerr := l.Join(tmp, -1)
		if jerr == nil && OnStepProblem != nil {
			if got, ok := l.Get(victim.GetHash()); ok && got != nil && string(got.GetPayload()) != string(victim.GetPayload()) {
				OnStepProblem(s.String(), fmt.Sprintf("the merge was accepted and the replica now holds, under hash %s, the forged payload %q (genuine: %q)", Short(victim.GetHash().String()), got.GetPayload(), victim.GetPayload()))
			}
		}
		return StepResult{Err: jerr}
	case "burst":
		return x.burst(s)
	case "jointruncated":
		src := x.Logs[s.S]
		heads := src.Heads().Slice()
		if len(heads) == 0 {
			return StepResult{}
		}
		n := s.PC
		part, err := x.W.LoadHash(heads[0].GetHash(), x.Writer[s.R], &LoadOpts{Length: &n})
		if err != nil {
			return StepResult{Err: err}
		}
		_, jerr := l.Join(part, -1)
		return StepResult{Err: jerr}
	case "joinalien":
		// a log with the same id written under the other link key: merging either way must be refused
		if x.alien == nil {
			other := "link2"
			if x.H.Codec == "link2" {
				other = "link"
			}
			lo := x.W.LogOpts(x.W.LogID)
			lo.IO = IO(other)
			a, err := ipfslog.NewLog(x.W.Store.API(), x.W.Idents[0], lo)
			if err != nil {
				panic(err)
			}
			for k := 0; k < 3; k++ {
				if _, err := a.Append(x.W.Ctx, []byte(fmt.Sprintf("%d.%d/alien%d", x.H.Seed, x.H.Idx, k)), nil); err != nil {
					return StepResult{Err: err}
				}
			}
			x.alien = a
		}
		_, e1 := x.alien.Join(l, -1) // the alien log verifies l's entries with ITS key
		_, e2 := l.Join(x.alien, -1)
		if e2 == nil && e1 != nil {
			e2 = e1
		}
		return StepResult{Err: e2}
	case "fork":
		src := x.Logs[s.S]
		lo := x.W.LogOpts(x.W.LogID)
		lo.Entries = src.GetEntries()
		lo.Heads = src.Heads().Slice()
		switch s.PC % 6 {
		case 5:
			if len(lo.Heads) > 1 {
				lo.Heads = lo.Heads[:1]
			}
		case 1:
			lo.Clock = src.Clock // continue with the source's clock object (minted by the source's writer)
		case 2:
			lo.Heads = nil // heads are found from the entries
		case 3:
			lo.Heads = []iface.IPFSLogEntry{} // e.g. a filter that matched nothing: still "no heads given"
		case 4:
			if fm, ok := x.forkMaps[s.S]; ok && fm.len == src.Len() {
				lo.Entries = fm.m // the same map object another replica was opened from
			}
		}
		x.forkMaps[s.S] = forkMap{lo.Entries, src.Len()}
		nl, err := ipfslog.NewLog(x.W.Store.API(), x.W.Idents[x.Writer[s.R]], lo)
		if err != nil {
			return StepResult{Err: err}
		}
		x.Logs[s.R] = nl
		return StepResult{}
	case "setident":
		l.SetIdentity(x.W.Idents[s.S])
		x.Writer[s.R] = s.S
		return StepResult{}
	case "reload":
		nl, err := x.W.Reload(l, s.Payload, x.Writer[s.R], nil)
		if err == nil && nl != nil {
			x.Logs[s.R] = nl
		}
		return StepResult{Err: err}
	case "joinself":
		_, err := l.Join(l, -1)
		return StepResult{Err: err}
	case "joinempty":
		_, err := l.Join(x.Empty, -1)
		return StepResult{Err: err}
	case "joinforeign":
		_, err := l.Join(x.Foreign, -1)
		return StepResult{Err: err}
	}
	panic("bad op " + s.Op)
}
