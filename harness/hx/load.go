package hx

import (
	"fmt"
	"sync/atomic"

	ipfslog "berty.tech/go-ipfs-log"
	"berty.tech/go-ipfs-log/entry"
	"berty.tech/go-ipfs-log/iface"
	"github.com/ipfs/go-cid"
)

// LoadOpts tunes a reload through one of the four loaders.
type LoadOpts struct {
	Length      *int
	Concurrency int
	Exclude     []iface.IPFSLogEntry
	ShouldExcl  iface.ExcludeFunc
	TimeoutMs   int
	Progress    chan iface.IPFSLogEntry // FetchOptions.ProgressChan
	NoExplicit  bool                    // never turn "no limit" into the explicit -1
}

// explicitAll counts loads process-wide: every third load that has no length limit says so EXPLICITLY (-1, the
// documented "everything" value) instead of leaving the limit out. The two spellings must load the same.
var explicitAll int64

func (lo *LoadOpts) length() *int {
	if lo.Length != nil || lo.NoExplicit {
		return lo.Length
	}
	if k := atomic.AddInt64(&explicitAll, 1); k%3 == 0 {
		m := []int{-1, -1, -2, -100}[(k/3)%4] // any negative length means "everything"
		return &m
	}
	return nil
}

var Loaders = []string{"manifest", "json", "entries", "hash"}

// Reload rebuilds a log from what l publishes, through the named loader.
// "hash" is only defined for single-headed logs (returns nil,nil otherwise);
// an empty log cannot be published (returns nil,nil).
func (w *World) Reload(l *ipfslog.IPFSLog, loader string, ident int, lo *LoadOpts) (*ipfslog.IPFSLog, error) {
	if lo == nil {
		lo = &LoadOpts{}
	}
	heads := l.Heads().Slice()
	if len(heads) == 0 {
		return nil, nil
	}
	if w.ReuseOptions && w.Codec != "pb" {
		// the caller that keeps ONE options value around has used it before - for a load of an OLDER state of this log
		// (its first entry): nothing of that load may stick to the value
		if vs := l.Values().Slice(); len(vs) >= 2 && vs[0] != nil {
			_, _ = w.LoadHash(vs[0].GetHash(), ident, &LoadOpts{NoExplicit: true})
		}
	}
	switch loader {
	case "manifest":
		c, err := l.ToMultihash(w.Ctx)
		if err != nil {
			return nil, fmt.Errorf("ToMultihash: %w", err)
		}
		return w.LoadManifest(c, ident, lo)
	case "json":
		return w.LoadJSON(l.ToJSONLog(), ident, lo)
	case "entries":
		// the caller's list of "latest entries" is not always minimal: every other time it also names an entry that
		// lies in the past of a head (a stale announcement next to a current one); without a length limit that
		// changes nothing
		if vs := l.Values().Slice(); lo.Length == nil && len(vs) >= 3 && atomic.AddInt64(&entriesLoads, 1)%2 == 0 {
			stale := vs[len(vs)/2]
			isHead := false
			for _, hd := range heads {
				isHead = isHead || hd.GetHash().Equals(stale.GetHash())
			}
			if !isHead {
				return w.LoadEntries(append(append([]iface.IPFSLogEntry(nil), heads...), stale), ident, lo)
			}
		}
		return w.LoadEntries(heads, ident, lo)
	case "hash":
		if len(heads) != 1 {
			return nil, nil
		}
		return w.LoadHash(heads[0].GetHash(), ident, lo)
	}
	panic("bad loader " + loader)
}

// loaderOpts: fresh options per call, or - for worlds with ReuseOptions - one value the caller keeps reusing.
func (w *World) loaderOpts() *ipfslog.LogOptions {
	if !w.ReuseOptions {
		return w.LogOpts(w.LogID)
	}
	if w.sharedOpts == nil {
		w.sharedOpts = w.LogOpts(w.LogID)
	}
	return w.sharedOpts
}

var entriesLoads int64

// manifestLoads counts manifest loads process-wide (worlds are copied by value by some monitors).
var manifestLoads int64

func (w *World) LoadManifest(c cid.Cid, ident int, lo *LoadOpts) (*ipfslog.IPFSLog, error) {
	opts := w.loaderOpts()
	// the manifest names the log: every other load leaves the id out of the options (or, with reused
	// options, whatever an earlier load left there stays)
	if atomic.AddInt64(&manifestLoads, 1)%2 == 0 && !w.ReuseOptions {
		opts.ID = ""
	}
	return ipfslog.NewFromMultihash(w.Ctx, w.Store.API(), w.Idents[ident], c, opts,
		&ipfslog.FetchOptions{Length: lo.length(), Concurrency: lo.Concurrency, Exclude: lo.Exclude, ShouldExclude: lo.ShouldExcl, Timeout: dur(lo.TimeoutMs), ProgressChan: lo.Progress})
}

func (w *World) LoadJSON(j *iface.JSONLog, ident int, lo *LoadOpts) (*ipfslog.IPFSLog, error) {
	if w.ReuseOptions && w.Codec != "pb" {
		if w.sharedFetch == nil {
			// the caller's FetchOptions value was used before, for a small log written with ANOTHER codec
			w.sharedFetch = &entry.FetchOptions{}
			other := "link"
			if w.Codec != "cbor" {
				other = "cbor"
			}
			wp := NewWorld(w.Seed, 1, w.LogID+"-prior", "hash", other)
			pl := wp.NewLog(0)
			if _, err := pl.Append(wp.Ctx, []byte("prior-1"), nil); err == nil {
				_, _ = pl.Append(wp.Ctx, []byte("prior-2"), nil)
				_, _ = ipfslog.NewFromJSON(wp.Ctx, wp.Store.API(), wp.Idents[0], pl.ToJSONLog(), wp.LogOpts(wp.LogID), w.sharedFetch)
			}
		}
		w.sharedFetch.Length, w.sharedFetch.Concurrency, w.sharedFetch.Timeout, w.sharedFetch.ProgressChan, w.sharedFetch.ShouldExclude = lo.length(), lo.Concurrency, dur(lo.TimeoutMs), lo.Progress, lo.ShouldExcl
		return ipfslog.NewFromJSON(w.Ctx, w.Store.API(), w.Idents[ident], j, w.loaderOpts(), w.sharedFetch)
	}
	return ipfslog.NewFromJSON(w.Ctx, w.Store.API(), w.Idents[ident], j, w.loaderOpts(),
		&entry.FetchOptions{Length: lo.length(), Concurrency: lo.Concurrency, Timeout: dur(lo.TimeoutMs), ProgressChan: lo.Progress, ShouldExclude: lo.ShouldExcl})
}

func (w *World) LoadEntries(heads []iface.IPFSLogEntry, ident int, lo *LoadOpts) (*ipfslog.IPFSLog, error) {
	return ipfslog.NewFromEntry(w.Ctx, w.Store.API(), w.Idents[ident], append([]iface.IPFSLogEntry(nil), heads...), w.loaderOpts(),
		&entry.FetchOptions{Length: lo.length(), Concurrency: lo.Concurrency, Exclude: lo.Exclude, Timeout: dur(lo.TimeoutMs), ProgressChan: lo.Progress, ShouldExclude: lo.ShouldExcl})
}

func (w *World) LoadHash(c cid.Cid, ident int, lo *LoadOpts) (*ipfslog.IPFSLog, error) {
	return ipfslog.NewFromEntryHash(w.Ctx, w.Store.API(), w.Idents[ident], c, w.loaderOpts(),
		&ipfslog.FetchOptions{Length: lo.length(), Concurrency: lo.Concurrency, Exclude: lo.Exclude, ShouldExclude: lo.ShouldExcl, Timeout: dur(lo.TimeoutMs), ProgressChan: lo.Progress})
}
