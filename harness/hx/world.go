// Package hx holds the harness core: deterministic identities, replicas over
// the instrumented store, observation of a log through its public API, and the
// seeded history generator / executor shared by the monitors.
package hx

import (
	"bytes"
	"context"
	"crypto/sha256"
	"encoding/hex"
	"fmt"
	"sort"
	"strings"
	"sync"
	"sync/atomic"
	"time"

	ipfslog "berty.tech/go-ipfs-log"
	"berty.tech/go-ipfs-log/accesscontroller"
	"berty.tech/go-ipfs-log/enc"
	"berty.tech/go-ipfs-log/entry"
	"berty.tech/go-ipfs-log/entry/sorting"
	idp "berty.tech/go-ipfs-log/identityprovider"
	"berty.tech/go-ipfs-log/iface"
	"berty.tech/go-ipfs-log/io/cbor"
	"berty.tech/go-ipfs-log/io/pb"
	"github.com/ipfs/go-cid"
	"github.com/libp2p/go-libp2p/core/crypto"

	"verifharness/model"
	"verifharness/store"
)

// ---------------------------------------------------------------- keystore

// DetKS is a deterministic keystore: the key of an id is a function of (seed,id),
// so that entry hashes are reproducible between runs and processes.
type DetKS struct {
	Seed int64
	// Device, when set, makes this the keystore of ANOTHER device of the same users: the ids listed in Roots (the
	// users' root keys, imported into every device) get the same key as on the first device, every other id (the
	// signing key a device generates for an identity) a key of its own.
	Device string
	Roots  map[string]bool
	mu     sync.Mutex
	keys   map[string]crypto.PrivKey
}

func NewDetKS(seed int64) *DetKS { return &DetKS{Seed: seed, keys: map[string]crypto.PrivKey{}} }

func (k *DetKS) HasKey(_ context.Context, id string) (bool, error) {
	k.mu.Lock()
	defer k.mu.Unlock()
	_, ok := k.keys[id]
	return ok, nil
}

func (k *DetKS) CreateKey(_ context.Context, id string) (crypto.PrivKey, error) {
	k.mu.Lock()
	defer k.mu.Unlock()
	sum := sha256.Sum256([]byte(fmt.Sprintf("verif-key|%d|%s", k.Seed, id)))
	if k.Device != "" && !k.Roots[id] {
		sum = sha256.Sum256([]byte(fmt.Sprintf("verif-key|%d|device %s|%s", k.Seed, k.Device, id)))
	}
	p, err := crypto.UnmarshalSecp256k1PrivateKey(sum[:])
	if err != nil {
		return nil, err
	}
	k.keys[id] = p
	return p, nil
}

func (k *DetKS) GetKey(_ context.Context, id string) (crypto.PrivKey, error) {
	k.mu.Lock()
	defer k.mu.Unlock()
	p, ok := k.keys[id]
	if !ok {
		return nil, fmt.Errorf("no key %q", id)
	}
	return p, nil
}

func (k *DetKS) Sign(p crypto.PrivKey, b []byte) ([]byte, error) { return p.Sign(b) }

func (k *DetKS) Verify(sig []byte, pub crypto.PubKey, data []byte) error {
	ok, err := pub.Verify(data, sig)
	if err != nil {
		return err
	}
	if !ok {
		return fmt.Errorf("bad signature")
	}
	return nil
}

// ---------------------------------------------------------------- codecs & orderings

// InitIO forces the process-wide codec singleton into existence (single-threaded, at start).
func InitIO() *cbor.IOCbor {
	io, err := cbor.IO(&entry.Entry{}, &entry.LamportClock{})
	if err != nil {
		panic(err)
	}
	return io
}

// LinkKey builds the n-th link key the way an application handling secrets does:
// from a scratch buffer that is reused for the next key and wiped afterwards.
func LinkKey(n int) enc.SharedKey {
	scratch := make([]byte, 32)
	var keys []enc.SharedKey
	for i := 1; i <= 2; i++ {
		sum := sha256.Sum256([]byte(fmt.Sprintf("verif-linkkey-%d", i)))
		copy(scratch, sum[:])
		k, err := enc.NewSecretbox(scratch)
		if err != nil {
			panic(err)
		}
		keys = append(keys, k)
	}
	for i := range scratch {
		scratch[i] = 0
	}
	return keys[n-1]
}

// LinkKeyBytes returns the raw 32 bytes of the n-th link key.
func LinkKeyBytes(n int) []byte {
	sum := sha256.Sum256([]byte(fmt.Sprintf("verif-linkkey-%d", n)))
	return append([]byte(nil), sum[:]...)
}

// LinkIOFromBytes builds a link-encrypting codec from raw key bytes (a private copy is handed over).
func LinkIOFromBytes(key []byte) iface.IO {
	k, err := enc.NewSecretbox(append([]byte(nil), key...))
	if err != nil {
		panic(err)
	}
	return InitIO().ApplyOptions(&cbor.Options{LinkKey: k})
}

// LateWipeLinkIO builds the link-encrypting codec for key n from a caller-owned buffer and returns, with the
// codec, the function by which the caller wipes that buffer LATER (after entries have been written with the
// codec). The codec must keep working with the key it was given.
func LateWipeLinkIO(n int) (iface.IO, func()) {
	buf := make([]byte, 32)
	sum := sha256.Sum256([]byte(fmt.Sprintf("verif-linkkey-%d", n)))
	copy(buf, sum[:])
	k, err := enc.NewSecretbox(buf)
	if err != nil {
		panic(err)
	}
	return InitIO().ApplyOptions(&cbor.Options{LinkKey: k}), func() {
		for i := range buf {
			buf[i] = 0
		}
	}
}

// Codec names: "cbor" (default), "link" / "link2" (link-encrypting with key 1 / 2), "pb" (legacy).
func IO(codec string) iface.IO {
	switch codec {
	case "", "cbor":
		return InitIO()
	case "link":
		return InitIO().ApplyOptions(&cbor.Options{LinkKey: LinkKey(1)})
	case "link2":
		return InitIO().ApplyOptions(&cbor.Options{LinkKey: LinkKey(2)})
	case "pb":
		io, err := pb.IO(&entry.Entry{}, &entry.LamportClock{})
		if err != nil {
			panic(err)
		}
		return io
	}
	panic("unknown codec " + codec)
}

// RevHash is a harness-supplied total order that respects clock time and id and
// breaks ties by reverse hash.
func RevHash(a, b iface.IPFSLogEntry) (int, error) {
	return sorting.SortByClocks(a, b, func(a, b iface.IPFSLogEntry) (int, error) {
		return sorting.SortByClockID(a, b, func(a, b iface.IPFSLogEntry) (int, error) {
			return -strings.Compare(a.GetHash().String(), b.GetHash().String()), nil
		})
	})
}

// Order names: "default" (nil SortFn = last-write-wins), "hash", "revhash".
func SortFn(order string) iface.EntrySortFn {
	switch order {
	case "", "default":
		return nil
	case "hash":
		return sorting.SortByEntryHash
	case "revhash":
		return RevHash
	case "fww":
		return sorting.FirstWriteWins
	}
	panic("unknown order " + order)
}

func ModelCmp(order string) model.Cmp {
	switch order {
	case "revhash":
		return model.CmpRevHash
	}
	return model.CmpHash
}

// ---------------------------------------------------------------- world

// DenyPrefix: payloads starting with it are refused by the replicas' access controller in histories with failures.
const DenyPrefix = "DENY:"

type denyPrefixACL struct{}

func (denyPrefixACL) CanAppend(e accesscontroller.LogEntry, _ idp.Interface, _ accesscontroller.CanAppendAdditionalContext) error {
	if bytes.HasPrefix(e.GetPayload(), []byte(DenyPrefix)) {
		return fmt.Errorf("payload refused by the replica's access controller")
	}
	return nil
}

type World struct {
	ReuseOptions bool // loaders get one reused LogOptions value (a caller keeping its options around)
	sharedOpts   *ipfslog.LogOptions
	sharedFetch  *entry.FetchOptions // ... and one reused FetchOptions value for the JSON loader, used before for a log of another codec
	DenyPrefix   bool
	Seed         int64
	Ctx          context.Context
	Store        *store.Store
	KS           *DetKS
	Idents       []*idp.Identity
	LogID        string
	Order        string
	Codec        string
	io           iface.IO
}

func NewWorld(seed int64, nIdents int, logID, order, codec string) *World {
	w := &World{Seed: seed, Ctx: context.Background(), Store: store.New(), KS: NewDetKS(seed), LogID: logID, Order: order, Codec: codec}
	w.io = IO(codec)
	for i := 0; i < nIdents; i++ {
		w.Idents = append(w.Idents, w.Identity(fmt.Sprintf("user%c", 'A'+i)))
	}
	return w
}

func (w *World) IOv() iface.IO { return w.io }

// SetIO replaces the codec of the world (before any log is created).
func (w *World) SetIO(io iface.IO) { w.io = io }

func (w *World) Identity(name string) *idp.Identity {
	id, err := idp.CreateIdentity(w.Ctx, &idp.CreateIdentityOptions{Keystore: w.KS, ID: name, Type: "orbitdb"})
	if err != nil {
		panic(err)
	}
	return id
}

// OtherDeviceIdentity: the identity of the same user on another device - the user's root key is the same (so the
// identity's id is the same), the signing key the device generated for it is another one (another public key).
func (w *World) OtherDeviceIdentity(name string) *idp.Identity {
	ks := &DetKS{Seed: w.Seed, Device: "2", Roots: map[string]bool{name: true}, keys: map[string]crypto.PrivKey{}}
	id, err := idp.CreateIdentity(w.Ctx, &idp.CreateIdentityOptions{Keystore: ks, ID: name, Type: "orbitdb"})
	if err != nil {
		panic(err)
	}
	return id
}

// CustomIdentity: an identity that was NOT minted by the built-in provider's id scheme - its id is an arbitrary
// string chosen by the application (upper-case hex, "0x..", a DID, ...). The key is held by the world's keystore
// under that id, the built-in provider signs with it, and the identity's signatures are real signatures.
func (w *World) CustomIdentity(id string) *idp.Identity {
	base := w.Idents[0]
	key, err := w.KS.CreateKey(w.Ctx, id)
	if err != nil {
		panic(err)
	}
	pub, err := key.GetPublic().Raw()
	if err != nil {
		panic(err)
	}
	sigID, _ := key.Sign([]byte(id))
	sigPK, _ := key.Sign(append(append([]byte(nil), pub...), sigID...))
	return &idp.Identity{ID: id, PublicKey: pub, Signatures: &idp.IdentitySignature{ID: sigID, PublicKey: sigPK}, Type: base.Type, Provider: base.Provider}
}

func (w *World) LogOpts(id string) *ipfslog.LogOptions {
	lo := &ipfslog.LogOptions{ID: id, SortFn: SortFn(w.Order), IO: w.io}
	if w.DenyPrefix {
		lo.AccessController = denyPrefixACL{}
	}
	return lo
}

func (w *World) NewLog(ident int) *ipfslog.IPFSLog {
	l, err := ipfslog.NewLog(w.Store.API(), w.Idents[ident], w.LogOpts(w.LogID))
	if err != nil {
		panic(err)
	}
	return l
}

func (w *World) NewLogID(ident int, id string) *ipfslog.IPFSLog {
	l, err := ipfslog.NewLog(w.Store.API(), w.Idents[ident], w.LogOpts(id))
	if err != nil {
		panic(err)
	}
	return l
}

// ---------------------------------------------------------------- observation

func Cids(cs []cid.Cid) []string {
	out := make([]string, len(cs))
	for i, c := range cs {
		out[i] = c.String()
	}
	return out
}

// ToModel converts a library entry into the model's view, with a digest over every field.
func ToModel(e iface.IPFSLogEntry) *model.E {
	m := &model.E{
		Hash:    e.GetHash().String(),
		Next:    Cids(e.GetNext()),
		Refs:    Cids(e.GetRefs()),
		Payload: string(e.GetPayload()),
		LogID:   e.GetLogID(),
	}
	if c := e.GetClock(); c != nil {
		m.ClockID = append([]byte(nil), c.GetID()...)
		m.Time = c.GetTime()
	}
	m.Digest = ContentDigest(e)
	return m
}

func ContentDigest(e iface.IPFSLogEntry) string {
	h := sha256.New()
	w := func(tag string, b []byte) { fmt.Fprintf(h, "%s:%d:", tag, len(b)); h.Write(b) }
	w("payload", e.GetPayload())
	w("id", []byte(e.GetLogID()))
	w("next", []byte(strings.Join(Cids(e.GetNext()), ",")))
	w("refs", []byte(strings.Join(Cids(e.GetRefs()), ",")))
	w("v", []byte(fmt.Sprint(e.GetV())))
	w("key", e.GetKey())
	w("sig", e.GetSig())
	w("hash", []byte(e.GetHash().String()))
	if c := e.GetClock(); c != nil {
		w("cid", c.GetID())
		w("ct", []byte(fmt.Sprint(c.GetTime())))
	}
	if id := e.GetIdentity(); id != nil {
		w("iid", []byte(id.ID))
		w("ipk", id.PublicKey)
		w("ity", []byte(id.Type))
		if id.Signatures != nil {
			w("isi", id.Signatures.ID)
			w("isp", id.Signatures.PublicKey)
		}
	}
	return hex.EncodeToString(h.Sum(nil))[:20]
}

// ObjectDigest additionally covers the in-memory side data (the encrypted links an entry created in memory
// carries). Two objects for the same hash may legitimately differ in it (created vs decoded), so it is only
// compared for ONE object over time.
func ObjectDigest(e iface.IPFSLogEntry) string {
	h := sha256.New()
	h.Write([]byte(ContentDigest(e)))
	ad := e.GetAdditionalData()
	keys := make([]string, 0, len(ad))
	for k := range ad {
		keys = append(keys, k)
	}
	sort.Strings(keys)
	for _, k := range keys {
		fmt.Fprintf(h, "|%s=%s", k, ad[k])
	}
	return hex.EncodeToString(h.Sum(nil))[:20]
}

func Hashes(es []iface.IPFSLogEntry) []string {
	out := make([]string, len(es))
	for i, e := range es {
		if e == nil {
			out[i] = "<nil>"
			continue
		}
		out[i] = e.GetHash().String()
	}
	return out
}

// Obs is what one observation of a log through its public API yields.
type Obs struct {
	Objs       map[iface.IPFSLogEntry]string // entry object -> ObjectDigest (in-place mutation of one object)
	NilEntries int                           // nil values handed out by GetEntries()/Values()/Heads() (a corrupted index)
	ID         string
	Set        model.Set
	Heads      []string
	RawHeads   []string
	Values     []string
	SnapHeads  []string
	SnapValues []string
	JSONHeads  []string
	Len        int
	// Differ: accessor results (Heads, RawHeads, Values, snapshot values) that hand out, for a hash the index
	// holds, an object whose CONTENT differs from the indexed one (e.g. an unverified same-hash object that
	// replaced a head). Only hashes present in the index are compared, so a racing writer cannot cause an entry.
	Differ []string
}

// OnObserve, when set, sees every observation (mon uses it to report Differ for the properties that speak
// about the content of what a log hands out).
var OnObserve func(o *Obs)

func Observe(l *ipfslog.IPFSLog) *Obs {
	o := &Obs{ID: l.GetID(), Set: model.Set{}, Objs: map[iface.IPFSLogEntry]string{}}
	for _, e := range l.GetEntries().Slice() {
		if e == nil {
			o.NilEntries++
			continue
		}
		o.Set[e.GetHash().String()] = ToModel(e)
		o.Objs[e] = ObjectDigest(e)
	}
	cmp := func(acc string, es []iface.IPFSLogEntry) []iface.IPFSLogEntry {
		for _, e := range es {
			if e == nil {
				continue
			}
			if _, same := o.Objs[e]; same {
				continue // the indexed object itself
			}
			if m, ok := o.Set[e.GetHash().String()]; ok && m.Digest != ContentDigest(e) && len(o.Differ) < 8 {
				o.Differ = append(o.Differ, fmt.Sprintf("%s() hands out for %s an object with payload %q next %v, the index holds payload %q next %v", acc, Short(m.Hash), clip(string(e.GetPayload()), 40), Shorts(Cids(e.GetNext())), clip(m.Payload, 40), Shorts(m.Next)))
			}
		}
		return es
	}
	o.Heads = Hashes(cmp("Heads", l.Heads().Slice()))
	o.RawHeads = Hashes(cmp("RawHeads", l.RawHeads().Slice()))
	o.Values = Hashes(cmp("Values", l.Values().Slice()))
	sn := l.ToSnapshot()
	o.SnapHeads = Cids(sn.Heads)
	o.SnapValues = Hashes(cmp("ToSnapshot().Values", sn.Values))
	o.JSONHeads = Cids(l.ToJSONLog().Heads)
	o.Len = l.Len()
	if OnObserve != nil {
		OnObserve(o)
	}
	return o
}

func clip(s string, n int) string {
	if len(s) > n {
		return s[:n] + "..."
	}
	return s
}

// Short shortens a hash for reports.
func Short(h string) string {
	if len(h) > 10 {
		return h[len(h)-8:]
	}
	return h
}

func Shorts(hs []string) []string {
	out := make([]string, len(hs))
	for i, h := range hs {
		out[i] = Short(h)
	}
	return out
}

func SortedShorts(hs []string) []string {
	o := Shorts(hs)
	sort.Strings(o)
	return o
}

// durLoads counts loader calls process-wide: every 7th call that sets no timeout says so with a NEGATIVE duration
// (-1 is how this API spells "no limit" elsewhere; the fetcher applies a timeout only when it is > 0).
var durLoads int64

func dur(ms int) time.Duration {
	if ms == 0 {
		if k := atomic.AddInt64(&durLoads, 1); k%7 == 0 {
			return []time.Duration{-1, -time.Millisecond, -time.Hour}[(k/7)%3]
		}
	}
	return time.Duration(ms) * time.Millisecond
}
